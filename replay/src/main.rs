//! vfgen: run the REAL library (/repo, ordinary build) on a list of jobs read from stdin, one per
//! line, and print the produced pickles.  Used to replay counterexamples / failed obligations
//! against the real code and by the replay finder.  No verification logic lives here.
//!
//! job line:  P=<0-5> [seed=<u64>|hex=<bytes>] [min=<n>] [max=<n>] [mut=a,b,..] [rate=<f64>]
//!            [unsafe=1] [ext=1] [buffer=1] [cfgfirst=1] [bufsize=<usize>] [calls=<spec>;<spec>..]
//!   calls spec: seed | hex:<bytes> | reset | fresh:<bytes> | freshseed   (fresh*: same call on a NEW generator with the same config)
//!   state=1: append ` | <depth>;<mark positions>;<memo keys>` (simulated machine after the last call on the generator)
//! output line: ok <hex>[,<hex>...][ | <state>]   or   err <message>   or   panic
use pickle_fuzzer::{Generator, MutatorKind, Version};
use std::io::{BufRead, Write};

fn unhex(s: &str) -> Vec<u8> {
    (0..s.len() / 2).map(|i| u8::from_str_radix(&s[2 * i..2 * i + 2], 16).unwrap()).collect()
}
fn hex(b: &[u8]) -> String {
    b.iter().map(|x| format!("{:02x}", x)).collect()
}

fn run(line: &str) -> Result<(Vec<Vec<u8>>, Option<String>), String> {
    let mut p = 2usize;
    let mut seed: Option<u64> = None;
    let mut bytes: Option<Vec<u8>> = None;
    let (mut min, mut max): (Option<usize>, Option<usize>) = (None, None);
    let mut muts: Vec<String> = vec![];
    let mut rate: Option<f64> = None;
    let mut bufsize: Option<usize> = None;
    let (mut uns, mut ext, mut buf) = (false, false, false);
    let mut calls: Vec<String> = vec![];
    let mut cfgfirst = false;
    let mut want_state = false;
    for kv in line.split_whitespace() {
        let (k, v) = kv.split_once('=').ok_or("bad token")?;
        match k {
            "P" => p = v.parse().map_err(|_| "P")?,
            "seed" => seed = Some(v.parse().map_err(|_| "seed")?),
            "hex" => bytes = Some(unhex(v)),
            "min" => min = Some(v.parse().map_err(|_| "min")?),
            "max" => max = Some(v.parse().map_err(|_| "max")?),
            "mut" => muts = v.split(',').filter(|s| !s.is_empty()).map(|s| s.to_string()).collect(),
            "rate" => rate = Some(v.parse().map_err(|_| "rate")?),
            "bufsize" => bufsize = Some(v.parse().map_err(|_| "bufsize")?),
            "unsafe" => uns = v == "1",
            "ext" => ext = v == "1",
            "buffer" => buf = v == "1",
            "cfgfirst" => cfgfirst = v == "1",
            "state" => want_state = v == "1",
            "calls" => calls = v.split(';').map(|s| s.to_string()).collect(),
            _ => return Err(format!("unknown key {}", k)),
        }
    }
    let make = || -> Result<Generator, String> {
        let version = Version::try_from(p).map_err(|e| e.to_string())?;
        let mut g = Generator::new(version);
        // "enabled" means the builder was called with true; a flag that is not enabled is never touched
        // (a builder that writes the wrong field must not be masked by a later call).  cfgfirst=1 applies
        // the opt-in flags before the other builders instead of after them.
        if cfgfirst {
            if buf { g = g.with_buffer_opcodes(true); }
            if ext { g = g.with_ext_opcodes(true); }
            if uns { g = g.with_unsafe_mutations(true); }
        }
        if let Some(s) = seed { g = g.with_seed(s); }
        if let (Some(a), Some(b), true) = (min, max, cfgfirst) {
            g = g.with_opcode_range(a, b);
        } else {
            if let Some(m) = min { g = g.with_min_opcodes(m); }
            if let Some(m) = max { g = g.with_max_opcodes(m); }
        }
        if let Some(r) = rate { g = g.with_mutation_rate(r); }
        if let Some(b) = bufsize { g = g.with_buffer_size(b); }
        if !cfgfirst {
            if uns { g = g.with_unsafe_mutations(true); }
            if ext { g = g.with_ext_opcodes(true); }
            if buf { g = g.with_buffer_opcodes(true); }
        }
        for m in &muts {
            let kind = match m.as_str() {
                "bitflip" => MutatorKind::Bitflip, "boundary" => MutatorKind::Boundary,
                "offbyone" => MutatorKind::Offbyone, "stringlen" => MutatorKind::Stringlen,
                "character" => MutatorKind::Character, "memoindex" => MutatorKind::Memoindex,
                "typeconfusion" => MutatorKind::Typeconfusion,
                _ => return Err(format!("unknown mutator {}", m)),
            };
            g = g.with_mutator(kind.create(uns));
        }
        Ok(g)
    };
    let mut g = make()?;
    if calls.is_empty() {
        calls.push(if bytes.is_some() { "hex".to_string() } else { "seed".to_string() });
    }
    let mut outs = vec![];
    for c in &calls {
        if c == "reset" {
            g.reset();
        } else if c == "seed" {
            outs.push(g.generate().map_err(|e| e.to_string())?);
        } else if c == "hex" {
            outs.push(g.generate_from_arbitrary(bytes.as_deref().unwrap_or(&[])).map_err(|e| e.to_string())?);
        } else if let Some(h) = c.strip_prefix("fresh:") {
            // a brand-new generator with the same configuration (reference for C08)
            let mut f = make()?;
            outs.push(f.generate_from_arbitrary(&unhex(h)).map_err(|e| e.to_string())?);
        } else if c == "freshseed" {
            let mut f = make()?;
            outs.push(f.generate().map_err(|e| e.to_string())?);
        } else if let Some(h) = c.strip_prefix("hex:") {
            outs.push(g.generate_from_arbitrary(&unhex(h)).map_err(|e| e.to_string())?);
        } else {
            return Err(format!("bad call {}", c));
        }
    }
    // state=1: the simulated machine the generator is left with (public fields), for the C17 end-state comparison:
    // depth ; positions of MARK slots ; sorted memo keys
    let st = if want_state {
        let inner = &g.state.stack.inner;
        let marks: Vec<String> = inner.iter().enumerate()
            .filter(|(_, c)| format!("{:?}", &*c.borrow()).starts_with("Mark"))
            .map(|(i, _)| i.to_string()).collect();
        let mut keys: Vec<usize> = g.state.memo.keys().copied().collect();
        keys.sort_unstable();
        Some(format!("{};{};{}", inner.len(), marks.join("."), keys.iter().map(|k| k.to_string()).collect::<Vec<_>>().join(".")))
    } else { None };
    Ok((outs, st))
}

fn main() {
    std::panic::set_hook(Box::new(|_| {}));
    let stdin = std::io::stdin();
    let out = std::io::stdout();
    let mut out = out.lock();
    for line in stdin.lock().lines() {
        let line = line.unwrap();
        if line.trim().is_empty() { continue; }
        let l2 = line.clone();
        let r = std::panic::catch_unwind(move || run(&l2));
        match r {
            Ok(Ok((outs, st))) => writeln!(out, "ok {}{}", outs.iter().map(|o| hex(o)).collect::<Vec<_>>().join(","),
                                            st.map(|s| format!(" | {}", s)).unwrap_or_default()).unwrap(),
            Ok(Err(e)) => writeln!(out, "err {}", e.replace('\n', " ")).unwrap(),
            Err(_) => writeln!(out, "panic").unwrap(),
        }
    }
}
