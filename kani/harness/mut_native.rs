//! BOUNDED STAND-IN for C15/C16 (never counted as proof): the mutator contracts executed natively
//! (ordinary rustc build of the copied real sources) over a fixed input family.  Used by the driver
//! only when the deductive route for the mutators gives no verdict (a mutator was rewritten in a
//! way the extractor or the verifier cannot take).  Prints one line per violated clause:
//!     NATIVE-VIOLATION [Cxx] <what> value=.. entropy=.. rate=..
use super::*;
use crate::generator::GenerationSource;
use arbitrary::Unstructured;
use rand::SeedableRng;
use rand_chacha::ChaCha8Rng;

fn entropies() -> Vec<Vec<u8>> {
    let mut v: Vec<Vec<u8>> = vec![vec![]];
    for b in 0..=255u8 { v.push(vec![b]); }
    // xorshift-sampled longer inputs, fixed seed
    let mut x: u64 = 0x9e3779b97f4a7c15;
    for i in 0..1500usize {
        let n = 2 + (i % 39);
        let mut e = Vec::with_capacity(n);
        for _ in 0..n { x ^= x << 13; x ^= x >> 7; x ^= x << 17; e.push((x >> 24) as u8); }
        v.push(e);
    }
    // patterns that matter for the gate: all zero, all ff
    v.push(vec![0; 40]);
    v.push(vec![0xff; 40]);
    v
}
fn strings() -> Vec<String> {
    let mut v: Vec<String> = ["", "a", "ab", "é", "a€b", "😀", "x'\\q", " ~", "aé", "€"].iter().map(|s| s.to_string()).collect();
    v.push("z".repeat(31));
    v.push("pq".repeat(15));
    v
}
fn byte_strings() -> Vec<Vec<u8>> {
    vec![vec![], vec![0], vec![255, 0], vec![10, 39, 92], (0..31u8).collect(), vec![0x80; 31]]
}
const RATES: [f64; 3] = [0.0, 1.0, 0.5];

fn report(tag: &str, what: &str, value: &str, ent: &str, rate: f64, got: &str) {
    println!("NATIVE-VIOLATION [{}] {} value={} entropy={} rate={} got={}", tag, what, value, ent, rate, got);
}
fn hex(b: &[u8]) -> String { b.iter().map(|x| format!("{:02x}", x)).collect() }

fn is_prefix(p: &[u8], v: &[u8]) -> bool { p.len() <= v.len() && &v[..p.len()] == p }
fn stringlen_ok_bytes(m: &[u8], v: &[u8]) -> bool {
    is_prefix(m, v) || (is_prefix(v, m) && m.len() >= v.len() + 1 && m.len() <= v.len() + 9)
        || (m.len() == 2 * v.len() && &m[..v.len()] == v && &m[v.len()..] == v)
}
fn stringlen_ok_chars(m: &[char], v: &[char]) -> bool {
    let pre = |p: &[char], q: &[char]| p.len() <= q.len() && &q[..p.len()] == p;
    pre(m, v) || (pre(v, m) && m.len() >= v.len() + 1 && m.len() <= v.len() + 9)
        || (m.len() == 2 * v.len() && &m[..v.len()] == v && &m[v.len()..] == v)
}

/// run `f` once per entropy source state: every fuzzer input of the family, then 48 PRNG seeds.
/// "Mutators never panic" (C16): a panic inside `f` is caught and reported as a violation of its own.
fn for_sources(mut f: impl FnMut(&mut GenerationSource, String)) {
    use std::panic::{catch_unwind, AssertUnwindSafe};
    let mut panics = 0usize;
    for e in entropies() {
        let mut u = Unstructured::new(&e);
        let mut s = GenerationSource::Arbitrary(&mut u);
        let label = format!("bytes:{}", hex(&e));
        if catch_unwind(AssertUnwindSafe(|| f(&mut s, label.clone()))).is_err() {
            panics += 1;
            if panics <= 5 { println!("NATIVE-VIOLATION [C16] a mutator panicked value=? entropy={} rate=? got=panic", label); }
        }
    }
    for seed in 0..48u64 {
        let mut rng = ChaCha8Rng::seed_from_u64(seed);
        let mut s = GenerationSource::Rand(&mut rng);
        let label = format!("seed:{}", seed);
        if catch_unwind(AssertUnwindSafe(|| f(&mut s, label.clone()))).is_err() {
            panics += 1;
            if panics <= 5 { println!("NATIVE-VIOLATION [C16] a mutator panicked value=? entropy={} rate=? got=panic", label); }
        }
    }
    assert!(panics == 0, "{} mutator calls panicked", panics);
}

#[test]
fn verif_native_string_mutators() {
    let mut bad = 0usize;
    for rate in RATES {
        for v in strings() {
            let vc: Vec<char> = v.chars().collect();
            for_sources(|src, ent| {
                let r = StringLengthMutator.mutate_string(v.clone(), src, rate);
                if rate == 0.0 && r.is_some() { bad += 1; report("C15", "stringlen.mutate_string fired at rate 0", &v, &ent, rate, "Some"); }
                if rate == 1.0 && r.is_none() { bad += 1; report("C15", "stringlen.mutate_string did not fire at rate 1", &v, &ent, rate, "None"); }
                if let Some(m) = r {
                    let mc: Vec<char> = m.chars().collect();
                    if !stringlen_ok_chars(&mc, &vc) { bad += 1; report("C16", "stringlen.mutate_string outside prefix/+1..9/doubled", &v, &ent, rate, &m); }
                }
            });
            for_sources(|src, ent| {
                let r = CharacterMutator.mutate_string(v.clone(), src, rate);
                if rate == 0.0 && r.is_some() { bad += 1; report("C15", "character.mutate_string fired at rate 0", &v, &ent, rate, "Some"); }
                if rate == 1.0 && !v.is_empty() && r.is_none() { bad += 1; report("C15", "character.mutate_string did not fire at rate 1", &v, &ent, rate, "None"); }
                if v.is_empty() && r.is_some() { bad += 1; report("C16", "character.mutate_string changed an empty string", &v, &ent, rate, "Some"); }
                if let Some(m) = r {
                    let mc: Vec<char> = m.chars().collect();
                    let diff: Vec<usize> = (0..mc.len().min(vc.len())).filter(|&i| mc[i] != vc[i]).collect();
                    let ok = mc.len() == vc.len() && diff.len() <= 1
                        && diff.iter().all(|&i| (mc[i] as u32) >= 0x20 && (mc[i] as u32) <= 0x7e);
                    if !ok { bad += 1; report("C16", "character.mutate_string: length/positions/printable", &v, &ent, rate, &m); }
                }
            });
        }
        for v in byte_strings() {
            for_sources(|src, ent| {
                let r = StringLengthMutator.mutate_bytes(v.clone(), src, rate);
                if rate == 0.0 && r.is_some() { bad += 1; report("C15", "stringlen.mutate_bytes fired at rate 0", &hex(&v), &ent, rate, "Some"); }
                if rate == 1.0 && r.is_none() { bad += 1; report("C15", "stringlen.mutate_bytes did not fire at rate 1", &hex(&v), &ent, rate, "None"); }
                if let Some(m) = r {
                    if !stringlen_ok_bytes(&m, &v) { bad += 1; report("C16", "stringlen.mutate_bytes outside prefix/+1..9/doubled", &hex(&v), &ent, rate, &hex(&m)); }
                }
            });
            for_sources(|src, ent| {
                let r = CharacterMutator.mutate_bytes(v.clone(), src, rate);
                if rate == 0.0 && r.is_some() { bad += 1; report("C15", "character.mutate_bytes fired at rate 0", &hex(&v), &ent, rate, "Some"); }
                if rate == 1.0 && !v.is_empty() && r.is_none() { bad += 1; report("C15", "character.mutate_bytes did not fire at rate 1", &hex(&v), &ent, rate, "None"); }
                if let Some(m) = r {
                    let d = (0..m.len().min(v.len())).filter(|&i| m[i] != v[i]).count();
                    if m.len() != v.len() || d > 1 { bad += 1; report("C16", "character.mutate_bytes: length/positions", &hex(&v), &ent, rate, &hex(&m)); }
                }
            });
        }
    }
    assert!(bad == 0, "{} native contract violations", bad);
}

#[test]
fn verif_native_scalar_mutators() {
    let mut bad = 0usize;
    let ints = [0i32, 1, -1, i32::MAX, i32::MIN, 12345, -7];
    let idxs = [0usize, 1, 255, 256, usize::MAX];
    for rate in RATES {
        for_sources(|src, ent| {
            for v in ints {
                let checks: [(&str, Option<i32>, Box<dyn Fn(i32) -> bool>); 3] = [
                    ("bitflip", BitFlipMutator.mutate_int(v, src, rate), Box::new(move |m| (m ^ v).count_ones() == 1)),
                    ("boundary", BoundaryMutator.mutate_int(v, src, rate), Box::new(|m| [0, -1, 1, i32::MAX, i32::MIN].contains(&m))),
                    ("offbyone", OffByOneMutator.mutate_int(v, src, rate), Box::new(move |m| m == v.wrapping_add(1) || m == v.wrapping_sub(1))),
                ];
                for (name, r, ok) in checks {
                    if rate == 0.0 && r.is_some() { bad += 1; report("C15", &format!("{}.mutate_int fired at rate 0", name), &v.to_string(), &ent, rate, "Some"); }
                    if rate == 1.0 && r.is_none() { bad += 1; report("C15", &format!("{}.mutate_int did not fire at rate 1", name), &v.to_string(), &ent, rate, "None"); }
                    if let Some(m) = r { if !ok(m) { bad += 1; report("C16", &format!("{}.mutate_int outside its contract", name), &v.to_string(), &ent, rate, &m.to_string()); } }
                }
            }
            for i in idxs {
                for unsafe_mode in [false, true] {
                    let r = MemoIndexMutator::new(unsafe_mode).mutate_memo_index(i, src, rate);
                    if rate == 0.0 && r.is_some() { bad += 1; report("C15", "memoindex fired at rate 0", &i.to_string(), &ent, rate, "Some"); }
                    if let Some(m) = r {
                        let ok = if unsafe_mode { m < 1000 } else { m == i || m == i.saturating_add(1) || m == i.saturating_sub(1) };
                        if !ok { bad += 1; report("C16", "memoindex outside its contract", &i.to_string(), &ent, rate, &m.to_string()); }
                    }
                }
                let r = OffByOneMutator.mutate_memo_index(i, src, rate);
                if let Some(m) = r { if !(m == i.saturating_add(1) || m == i.saturating_sub(1)) { bad += 1; report("C16", "offbyone.mutate_memo_index", &i.to_string(), &ent, rate, &m.to_string()); } }
            }
        });
    }
    assert!(bad == 0, "{} native contract violations", bad);
}
