//! BOUNDED STAND-IN for C15/C16 (never counted as proof): the mutator contracts executed natively
//! (ordinary rustc build of the copied real sources) over a fixed input family.  Used by the driver
//! only when the deductive route for the mutators gives no verdict (a mutator was rewritten in a
//! way the extractor or the verifier cannot take).  Prints one line per violated clause:
//!     NATIVE-VIOLATION [Cxx] <what> value=.. entropy=.. rate=..
use super::*;
use crate::generator::GenerationSource;
use arbitrary::Unstructured;
use rand::SeedableRng;
use rand_chacha::ChaCha8Rng;

fn entropies() -> Vec<Vec<u8>> {
    let mut v: Vec<Vec<u8>> = vec![vec![]];
    for b in 0..=255u8 { v.push(vec![b]); }
    // xorshift-sampled longer inputs, fixed seed
    let mut x: u64 = 0x9e3779b97f4a7c15;
    for i in 0..1500usize {
        let n = 2 + (i % 39);
        let mut e = Vec::with_capacity(n);
        for _ in 0..n { x ^= x << 13; x ^= x >> 7; x ^= x << 17; e.push((x >> 24) as u8); }
        v.push(e);
    }
    // patterns that matter for the gate: all zero, all ff
    v.push(vec![0; 40]);
    v.push(vec![0xff; 40]);
    v
}
fn strings() -> Vec<String> {
    let mut v: Vec<String> = ["", "a", "ab", "é", "a€b", "😀", "x'\\q", " ~", "aé", "€"].iter().map(|s| s.to_string()).collect();
    v.push("z".repeat(31));
    v.push("pq".repeat(15));
    v
}
fn byte_strings() -> Vec<Vec<u8>> {
    vec![vec![], vec![0], vec![255, 0], vec![10, 39, 92], (0..31u8).collect(), vec![0x80; 31]]
}
const RATES: [f64; 3] = [0.0, 1.0, 0.5];

fn report(tag: &str, what: &str, value: &str, ent: &str, rate: f64, got: &str) {
    // the first reports are enough for the driver (it takes the first line per property); the count is in the final assert
    static SHOWN: std::sync::atomic::AtomicUsize = std::sync::atomic::AtomicUsize::new(0);
    if SHOWN.fetch_add(1, std::sync::atomic::Ordering::Relaxed) >= 200 { return; }
    println!("NATIVE-VIOLATION [{}] {} value={} entropy={} rate={} got={}", tag, what, value, ent, rate, got);
}
fn hex(b: &[u8]) -> String { b.iter().map(|x| format!("{:02x}", x)).collect() }

fn is_prefix(p: &[u8], v: &[u8]) -> bool { p.len() <= v.len() && &v[..p.len()] == p }
fn stringlen_ok_bytes(m: &[u8], v: &[u8]) -> bool {
    is_prefix(m, v) || (is_prefix(v, m) && m.len() >= v.len() + 1 && m.len() <= v.len() + 9)
        || (m.len() == 2 * v.len() && &m[..v.len()] == v && &m[v.len()..] == v)
}
fn stringlen_ok_chars(m: &[char], v: &[char]) -> bool {
    let pre = |p: &[char], q: &[char]| p.len() <= q.len() && &q[..p.len()] == p;
    pre(m, v) || (pre(v, m) && m.len() >= v.len() + 1 && m.len() <= v.len() + 9)
        || (m.len() == 2 * v.len() && &m[..v.len()] == v && &m[v.len()..] == v)
}

/// run `f` once per entropy source state: every fuzzer input of the family, then 48 PRNG seeds.
/// "Mutators never panic" (C16): a panic inside `f` is caught and reported as a violation of its own.
fn for_sources(mut f: impl FnMut(&mut GenerationSource, String)) {
    use std::panic::{catch_unwind, AssertUnwindSafe};
    let mut panics = 0usize;
    for e in entropies() {
        let mut u = Unstructured::new(&e);
        let mut s = GenerationSource::Arbitrary(&mut u);
        let label = format!("bytes:{}", hex(&e));
        if catch_unwind(AssertUnwindSafe(|| f(&mut s, label.clone()))).is_err() {
            panics += 1;
            if panics <= 5 { println!("NATIVE-VIOLATION [C16] a mutator panicked value=? entropy={} rate=? got=panic", label); }
        }
    }
    for seed in 0..48u64 {
        let mut rng = ChaCha8Rng::seed_from_u64(seed);
        let mut s = GenerationSource::Rand(&mut rng);
        let label = format!("seed:{}", seed);
        if catch_unwind(AssertUnwindSafe(|| f(&mut s, label.clone()))).is_err() {
            panics += 1;
            if panics <= 5 { println!("NATIVE-VIOLATION [C16] a mutator panicked value=? entropy={} rate=? got=panic", label); }
        }
    }
    assert!(panics == 0, "{} mutator calls panicked", panics);
}

#[test]
fn verif_native_string_mutators() {
    let mut bad = 0usize;
    for rate in RATES {
        for v in strings() {
            let vc: Vec<char> = v.chars().collect();
            for_sources(|src, ent| {
                let r = StringLengthMutator.mutate_string(v.clone(), src, rate);
                if rate == 0.0 && r.is_some() { bad += 1; report("C15", "stringlen.mutate_string fired at rate 0", &v, &ent, rate, "Some"); }
                if rate == 1.0 && r.is_none() { bad += 1; report("C15", "stringlen.mutate_string did not fire at rate 1", &v, &ent, rate, "None"); }
                if let Some(m) = r {
                    let mc: Vec<char> = m.chars().collect();
                    if !stringlen_ok_chars(&mc, &vc) { bad += 1; report("C16", "stringlen.mutate_string outside prefix/+1..9/doubled", &v, &ent, rate, &m); }
                }
            });
            for_sources(|src, ent| {
                let r = CharacterMutator.mutate_string(v.clone(), src, rate);
                if rate == 0.0 && r.is_some() { bad += 1; report("C15", "character.mutate_string fired at rate 0", &v, &ent, rate, "Some"); }
                if rate == 1.0 && !v.is_empty() && r.is_none() { bad += 1; report("C15", "character.mutate_string did not fire at rate 1", &v, &ent, rate, "None"); }
                if v.is_empty() && r.is_some() { bad += 1; report("C16", "character.mutate_string changed an empty string", &v, &ent, rate, "Some"); }
                if let Some(m) = r {
                    let mc: Vec<char> = m.chars().collect();
                    let diff: Vec<usize> = (0..mc.len().min(vc.len())).filter(|&i| mc[i] != vc[i]).collect();
                    let ok = mc.len() == vc.len() && diff.len() <= 1
                        && diff.iter().all(|&i| (mc[i] as u32) >= 0x20 && (mc[i] as u32) <= 0x7e);
                    if !ok { bad += 1; report("C16", "character.mutate_string: length/positions/printable", &v, &ent, rate, &m); }
                }
            });
        }
        for v in byte_strings() {
            for_sources(|src, ent| {
                let r = StringLengthMutator.mutate_bytes(v.clone(), src, rate);
                if rate == 0.0 && r.is_some() { bad += 1; report("C15", "stringlen.mutate_bytes fired at rate 0", &hex(&v), &ent, rate, "Some"); }
                if rate == 1.0 && r.is_none() { bad += 1; report("C15", "stringlen.mutate_bytes did not fire at rate 1", &hex(&v), &ent, rate, "None"); }
                if let Some(m) = r {
                    if !stringlen_ok_bytes(&m, &v) { bad += 1; report("C16", "stringlen.mutate_bytes outside prefix/+1..9/doubled", &hex(&v), &ent, rate, &hex(&m)); }
                }
            });
            for_sources(|src, ent| {
                let r = CharacterMutator.mutate_bytes(v.clone(), src, rate);
                if rate == 0.0 && r.is_some() { bad += 1; report("C15", "character.mutate_bytes fired at rate 0", &hex(&v), &ent, rate, "Some"); }
                if rate == 1.0 && !v.is_empty() && r.is_none() { bad += 1; report("C15", "character.mutate_bytes did not fire at rate 1", &hex(&v), &ent, rate, "None"); }
                if let Some(m) = r {
                    let d = (0..m.len().min(v.len())).filter(|&i| m[i] != v[i]).count();
                    if m.len() != v.len() || d > 1 { bad += 1; report("C16", "character.mutate_bytes: length/positions", &hex(&v), &ent, rate, &hex(&m)); }
                }
            });
        }
    }
    assert!(bad == 0, "{} native contract violations", bad);
}

#[test]
fn verif_native_scalar_mutators() {
    let mut bad = 0usize;
    let ints = [0i32, 1, -1, i32::MAX, i32::MIN, 12345, -7];
    let idxs = [0usize, 1, 255, 256, usize::MAX];
    for rate in RATES {
        for_sources(|src, ent| {
            for v in ints {
                let checks: [(&str, Option<i32>, Box<dyn Fn(i32) -> bool>); 3] = [
                    ("bitflip", BitFlipMutator.mutate_int(v, src, rate), Box::new(move |m| (m ^ v).count_ones() == 1)),
                    ("boundary", BoundaryMutator.mutate_int(v, src, rate), Box::new(|m| [0, -1, 1, i32::MAX, i32::MIN].contains(&m))),
                    ("offbyone", OffByOneMutator.mutate_int(v, src, rate), Box::new(move |m| m == v.wrapping_add(1) || m == v.wrapping_sub(1))),
                ];
                for (name, r, ok) in checks {
                    if rate == 0.0 && r.is_some() { bad += 1; report("C15", &format!("{}.mutate_int fired at rate 0", name), &v.to_string(), &ent, rate, "Some"); }
                    if rate == 1.0 && r.is_none() { bad += 1; report("C15", &format!("{}.mutate_int did not fire at rate 1", name), &v.to_string(), &ent, rate, "None"); }
                    if let Some(m) = r { if !ok(m) { bad += 1; report("C16", &format!("{}.mutate_int outside its contract", name), &v.to_string(), &ent, rate, &m.to_string()); } }
                }
            }
            for i in idxs {
                for unsafe_mode in [false, true] {
                    let r = MemoIndexMutator::new(unsafe_mode).mutate_memo_index(i, src, rate);
                    if rate == 0.0 && r.is_some() { bad += 1; report("C15", "memoindex fired at rate 0", &i.to_string(), &ent, rate, "Some"); }
                    if let Some(m) = r {
                        let ok = if unsafe_mode { m < 1000 } else { m == i || m == i.saturating_add(1) || m == i.saturating_sub(1) };
                        if !ok { bad += 1; report("C16", "memoindex outside its contract", &i.to_string(), &ent, rate, &m.to_string()); }
                    }
                }
                let r = OffByOneMutator.mutate_memo_index(i, src, rate);
                if let Some(m) = r { if !(m == i.saturating_add(1) || m == i.saturating_sub(1)) { bad += 1; report("C16", "offbyone.mutate_memo_index", &i.to_string(), &ent, rate, &m.to_string()); } }
            }
        });
    }
    assert!(bad == 0, "{} native contract violations", bad);
}

// ---- type confusion (C16, bounded): real emissions of every encoding shape, every source of the family ----
fn tc_value_pushing(op: u8) -> bool {
    matches!(op, 0x49 | 0x4a | 0x4b | 0x4d | 0x4c | 0x8a | 0x8b | 0x46 | 0x47 | 0x53 | 0x56 | 0x8c | 0x58 | 0x8d
        | 0x42 | 0x43 | 0x8e | 0x54 | 0x55 | 0x5d | 0x6c | 0x29 | 0x74 | 0x85 | 0x86 | 0x87 | 0x7d | 0x64 | 0x4e | 0x88 | 0x89)
}
fn tc_class_of(op: u8) -> u8 {
    match op {
        0x49 | 0x4a | 0x4b | 0x4d | 0x4c | 0x8a | 0x8b => 1,
        0x46 | 0x47 => 2,
        0x53 | 0x56 | 0x8c | 0x58 | 0x8d => 3,
        0x42 | 0x43 | 0x8e | 0x54 | 0x55 => 4,
        0x5d | 0x6c => 5,
        0x29 | 0x74 | 0x85 | 0x86 | 0x87 => 6,
        0x7d | 0x64 => 7,
        0x4e => 8,
        0x88 | 0x89 => 9,
        _ => 0,
    }
}
/// `rep` is exactly ONE complete value-pushing opcode (any of them, with its whole argument and nothing after it)
fn tc_one_complete(rep: &[u8]) -> bool {
    if rep.is_empty() || !tc_value_pushing(rep[0]) { return false; }
    let le = |b: &[u8]| -> Option<usize> { let mut n = 0u64; for (i, x) in b.iter().enumerate() { n |= (*x as u64) << (8 * i); } usize::try_from(n).ok() };
    let want: Option<usize> = match rep[0] {
        0x4a => Some(5), 0x4b => Some(2), 0x4d => Some(3), 0x47 => Some(9),
        0x8a | 0x8c | 0x43 | 0x55 => rep.get(1).map(|n| 2 + *n as usize),
        0x8b | 0x58 | 0x42 | 0x54 => if rep.len() >= 5 { le(&rep[1..5]).and_then(|n| n.checked_add(5)) } else { None },
        0x8d | 0x8e => if rep.len() >= 9 { le(&rep[1..9]).and_then(|n| n.checked_add(9)) } else { None },
        0x49 | 0x4c | 0x46 | 0x53 | 0x56 => rep.iter().position(|b| *b == b'\n').map(|p| p + 1),
        _ => Some(1),
    };
    want == Some(rep.len())
}
fn tc_emissions() -> Vec<Vec<u8>> {
    let mut v: Vec<Vec<u8>> = vec![
        vec![], vec![0x4a, 1, 2, 3, 4], vec![0x4b, 7], vec![0x4d, 1, 2], vec![0x47, 0x40, 9, 0x21, 0xfb, 0x54, 0x44, 0x2d, 0x18],
        b"I123\n".to_vec(), b"L-5L\n".to_vec(), b"F1.5\n".to_vec(), b"S'ab'\n".to_vec(), b"Vxyz\n".to_vec(),
        vec![0x8a, 2, 0x95, 0x2e], vec![0x8b, 3, 0, 0, 0, 0x95, 0x2e, 0x95],
        vec![0x5d], vec![0x29], vec![0x7d], vec![0x4e], vec![0x88], vec![0x89], vec![0x85], vec![0x6c],
        // not value-pushing: POP, BINPUT 3, MARK, MEMOIZE, STOP, GLOBAL
        vec![0x30], vec![0x71, 3], vec![0x28], vec![0x94], vec![0x2e], b"cos\nsystem\n".to_vec(),
    ];
    // counted payloads whose bytes look like opcodes (FRAME, STOP, PROTO): leftovers would be visible as such
    for (op, w) in [(0x8cu8, 1usize), (0x43, 1), (0x55, 1), (0x58, 4), (0x42, 4), (0x54, 4), (0x8d, 8), (0x8e, 8)] {
        for n in [0usize, 1, 12, 40] {
            let mut e = vec![op];
            e.extend_from_slice(&(n as u64).to_le_bytes()[..w]);
            for i in 0..n { e.push([0x95u8, 0x2e, 0x80, 0x8e][i % 4]); }
            v.push(e);
        }
    }
    v
}

#[test]
fn verif_native_typeconfusion() {
    let mut bad = 0usize;
    let prefixes: [&[u8]; 3] = [&[], &[0x80, 0x04], &[0x80, 0x05, 0x95, 9, 0, 0, 0, 0, 0, 0, 0, 0x4e]];
    for rate in RATES {
        for pre in prefixes {
            for del in tc_emissions() {
                for unsafe_mode in [false, true] {
                    for_sources(|src, ent| {
                        let mut output: Vec<u8> = pre.to_vec();
                        output.extend_from_slice(&del);
                        let before = output.clone();
                        let snapshot = EmissionSnapshot {
                            stack_depth: 1, output_len: pre.len(), memo_size: 0,
                            stack_delta: Vec::new(), output_delta: del.clone(), memo_delta: Vec::new(),
                        };
                        let fired = TypeConfusionMutator::new(unsafe_mode).post_process(&snapshot, &mut output, src, rate);
                        let val = format!("{}|{}", hex(pre), hex(&del));
                        if !unsafe_mode && (fired || output != before) { bad += 1; report("C16", "typeconfusion did something in safe mode", &val, &ent, rate, &hex(&output)); }
                        if rate == 0.0 && (fired || output != before) { bad += 1; report("C15", "typeconfusion rewrote emitted bytes at rate 0", &val, &ent, rate, &hex(&output)); }
                        if (del.is_empty() || !tc_value_pushing(del[0])) && (fired || output != before) { bad += 1; report("C16", "typeconfusion touched an opcode that pushes no value", &val, &ent, rate, &hex(&output)); }
                        if rate == 1.0 && unsafe_mode && !del.is_empty() && tc_value_pushing(del[0]) && !fired { bad += 1; report("C15", "typeconfusion did not fire at rate 1", &val, &ent, rate, &hex(&output)); }
                        if !fired && output != before { bad += 1; report("C16", "typeconfusion changed the output without firing", &val, &ent, rate, &hex(&output)); }
                        if fired {
                            let ok = output.len() >= pre.len() && &output[..pre.len()] == pre && {
                                let rep = &output[pre.len()..];
                                tc_one_complete(rep) && !del.is_empty() && tc_class_of(rep[0]) != tc_class_of(del[0])
                            };
                            if !ok { bad += 1; report("C16", "typeconfusion: the emission must be replaced by exactly one complete value-pushing opcode of another kind, earlier bytes untouched", &val, &ent, rate, &hex(&output)); }
                        }
                    });
                }
            }
        }
    }
    assert!(bad == 0, "{} native contract violations", bad);
}
