//! Kani harnesses living inside `crate::mutators`: U8 (C15 rate gate, C16 mutator contracts).
//! Entropy: both real sources.  Fuzzer mode = every byte string of length 0..=NBYTES (each harness
//! draws a bounded number of scalars; exhausted input included).  PRNG mode = ChaCha8 output
//! replaced by kani::any() (over-approximates every PRNG state), rand's reductions run for real.
//! Integers / floats / indices: full domain (complete).  Strings / byte strings: bounded length.
use super::*;
use crate::generator::{EntropySource, GenerationSource};
use arbitrary::Unstructured;
use rand_chacha::ChaCha8Rng;

const NBYTES: usize = 24;

fn any_u32(_r: &mut ChaCha8Rng) -> u32 { kani::any() }
fn any_u64(_r: &mut ChaCha8Rng) -> u64 { kani::any() }

/// run `$body` with `$src` bound to a fuzzer-bytes source over any input of length 0..=NBYTES
macro_rules! with_arb {
    ($src:ident, $body:block) => {{
        let data: [u8; NBYTES] = kani::any();
        let len: usize = kani::any();
        kani::assume(len <= NBYTES);
        let mut u = Unstructured::new(&data[..len]);
        let mut s = GenerationSource::Arbitrary(&mut u);
        let $src = &mut s;
        $body
    }};
}
/// ... and to a PRNG source in any state
macro_rules! with_rand {
    ($src:ident, $body:block) => {{
        let mut rng: ChaCha8Rng = unsafe { core::mem::zeroed() };
        let mut s = GenerationSource::Rand(&mut rng);
        let $src = &mut s;
        $body
    }};
}
/// define `<name>_arb` and `<name>_rand` harnesses with the same body
macro_rules! both {
    ($arb:ident, $rand:ident, $unw:expr, |$src:ident| $body:block) => {
        #[kani::proof]
        #[kani::unwind($unw)]
        fn $arb() { with_arb!($src, $body) }
        #[kani::proof]
        #[kani::unwind($unw)]
        #[kani::stub(<ChaCha8Rng as rand::RngCore>::next_u32, any_u32)]
        #[kani::stub(<ChaCha8Rng as rand::RngCore>::next_u64, any_u64)]
        fn $rand() { with_rand!($src, $body) }
    };
}

fn any_rate() -> f64 { kani::any() }

// ---- bit-flip -------------------------------------------------------------------------------------
both!(u8_bitflip_int_arb, u8_bitflip_int_rand, 10, |src| {
    let v: i32 = kani::any();
    let rate = any_rate();
    let r = BitFlipMutator.mutate_int(v, src, rate);
    if rate == 0.0 { assert!(r.is_none(), "[C15] rate 0.0 must never mutate"); }
    if rate == 1.0 { assert!(r.is_some(), "[C15] rate 1.0 must always mutate an applicable value"); }
    if let Some(m) = r { assert!((m ^ v).count_ones() == 1, "[C16] result outside the mutator's contract"); }
});
both!(u8_bitflip_long_arb, u8_bitflip_long_rand, 10, |src| {
    let v: i64 = kani::any();
    let rate = any_rate();
    let r = BitFlipMutator.mutate_long(v, src, rate);
    if rate == 0.0 { assert!(r.is_none(), "[C15] rate 0.0 must never mutate"); }
    if rate == 1.0 { assert!(r.is_some(), "[C15] rate 1.0 must always mutate an applicable value"); }
    if let Some(m) = r { assert!((m ^ v).count_ones() == 1, "[C16] result outside the mutator's contract"); }
});

// ---- boundary -------------------------------------------------------------------------------------
both!(u8_boundary_int_arb, u8_boundary_int_rand, 10, |src| {
    let v: i32 = kani::any();
    let rate = any_rate();
    let r = BoundaryMutator.mutate_int(v, src, rate);
    if rate == 0.0 { assert!(r.is_none(), "[C15] rate 0.0 must never mutate"); }
    if rate == 1.0 { assert!(r.is_some(), "[C15] rate 1.0 must always mutate an applicable value"); }
    if let Some(m) = r { assert!(m == 0 || m == -1 || m == 1 || m == i32::MAX || m == i32::MIN, "[C16] result outside the mutator's contract"); }
});
both!(u8_boundary_long_arb, u8_boundary_long_rand, 10, |src| {
    let v: i64 = kani::any();
    let rate = any_rate();
    let r = BoundaryMutator.mutate_long(v, src, rate);
    if rate == 0.0 { assert!(r.is_none(), "[C15] rate 0.0 must never mutate"); }
    if rate == 1.0 { assert!(r.is_some(), "[C15] rate 1.0 must always mutate an applicable value"); }
    if let Some(m) = r { assert!(m == 0 || m == -1 || m == 1 || m == i64::MAX || m == i64::MIN, "[C16] result outside the mutator's contract"); }
});
both!(u8_boundary_float_arb, u8_boundary_float_rand, 10, |src| {
    let v: f64 = kani::any();
    let rate = any_rate();
    let r = BoundaryMutator.mutate_float(v, src, rate);
    if rate == 0.0 { assert!(r.is_none(), "[C15] rate 0.0 must never mutate"); }
    if rate == 1.0 { assert!(r.is_some(), "[C15] rate 1.0 must always mutate an applicable value"); }
    if let Some(m) = r {
        let b = m.to_bits();
        assert!(b == 0.0f64.to_bits() || b == (-1.0f64).to_bits() || b == 1.0f64.to_bits()
            || b == f64::MAX.to_bits() || b == f64::MIN.to_bits() || b == f64::INFINITY.to_bits()
            || b == f64::NEG_INFINITY.to_bits() || m.is_nan());
    }
});

// ---- off-by-one -----------------------------------------------------------------------------------
both!(u8_offbyone_int_arb, u8_offbyone_int_rand, 10, |src| {
    let v: i32 = kani::any();
    let rate = any_rate();
    let r = OffByOneMutator.mutate_int(v, src, rate);
    if rate == 0.0 { assert!(r.is_none(), "[C15] rate 0.0 must never mutate"); }
    if rate == 1.0 { assert!(r.is_some(), "[C15] rate 1.0 must always mutate an applicable value"); }
    if let Some(m) = r { assert!(m == v.wrapping_add(1) || m == v.wrapping_sub(1), "[C16] result outside the mutator's contract"); }
});
both!(u8_offbyone_long_arb, u8_offbyone_long_rand, 10, |src| {
    let v: i64 = kani::any();
    let rate = any_rate();
    let r = OffByOneMutator.mutate_long(v, src, rate);
    if rate == 0.0 { assert!(r.is_none(), "[C15] rate 0.0 must never mutate"); }
    if rate == 1.0 { assert!(r.is_some(), "[C15] rate 1.0 must always mutate an applicable value"); }
    if let Some(m) = r { assert!(m == v.wrapping_add(1) || m == v.wrapping_sub(1), "[C16] result outside the mutator's contract"); }
});
both!(u8_offbyone_memo_arb, u8_offbyone_memo_rand, 10, |src| {
    let v: usize = kani::any();
    let rate = any_rate();
    let r = OffByOneMutator.mutate_memo_index(v, src, rate);
    if rate == 0.0 { assert!(r.is_none(), "[C15] rate 0.0 must never mutate"); }
    if rate == 1.0 { assert!(r.is_some(), "[C15] rate 1.0 must always mutate an applicable value"); }
    if let Some(m) = r { assert!(m == v.saturating_add(1) || m == v.saturating_sub(1), "[C16] result outside the mutator's contract"); }
});

// ---- memo-index -----------------------------------------------------------------------------------
both!(u8_memoindex_arb, u8_memoindex_rand, 10, |src| {
    let v: usize = kani::any();
    let rate = any_rate();
    let unsafe_mode: bool = kani::any();
    let mu = MemoIndexMutator::new(unsafe_mode);
    assert!(mu.is_unsafe() == unsafe_mode);
    let r = mu.mutate_memo_index(v, src, rate);
    if rate == 0.0 { assert!(r.is_none(), "[C15] rate 0.0 must never mutate"); }
    if rate == 1.0 { assert!(r.is_some(), "[C15] rate 1.0 must always mutate an applicable value"); }
    if let Some(m) = r {
        if unsafe_mode { assert!(m < 1000); }
        else { assert!(m == v || m == v.saturating_add(1) || m == v.saturating_sub(1)); }
    }
});

// ---- MutatorKind::create forwards the unsafe flag (the generator contracts assume the registered mutators were
// built with the generator's own mode: `mutators_consistent`) -----------------------------------------
both!(u8_create_mode_arb, u8_create_mode_rand, 10, |src| {
    let unsafe_mode: bool = kani::any();
    let v: usize = kani::any();
    let rate = any_rate();
    let m = MutatorKind::Memoindex.create(unsafe_mode);
    assert!(m.is_unsafe() == unsafe_mode, "[C16] MutatorKind::create must build the memo-index mutator in the requested mode");
    if let Some(x) = m.mutate_memo_index(v, src, rate) {
        if !unsafe_mode {
            assert!(x == v || x == v.saturating_add(1) || x == v.saturating_sub(1), "[C16] memo-index created in safe mode must move by at most one");
        }
    }
    // type confusion created in safe mode does nothing
    let del: [u8; 2] = kani::any();
    let mut output: Vec<u8> = Vec::with_capacity(8);
    output.extend_from_slice(&del);
    let snapshot = EmissionSnapshot {
        stack_depth: kani::any(), output_len: 0, memo_size: kani::any(),
        stack_delta: Vec::new(), output_delta: del.to_vec(), memo_delta: Vec::new(),
    };
    let t = MutatorKind::Typeconfusion.create(false);
    let fired = t.post_process(&snapshot, &mut output, src, rate);
    assert!(!fired, "[C16] type confusion created in safe mode must do nothing");
    assert!(output.len() == 2 && output[0] == del[0] && output[1] == del[1], "[C16] type confusion created in safe mode must do nothing");
    // the kinds without a mode are safe
    assert!(!MutatorKind::Bitflip.create(unsafe_mode).is_unsafe() && !MutatorKind::Boundary.create(unsafe_mode).is_unsafe()
        && !MutatorKind::Offbyone.create(unsafe_mode).is_unsafe() && !MutatorKind::Stringlen.create(unsafe_mode).is_unsafe()
        && !MutatorKind::Character.create(unsafe_mode).is_unsafe(), "[C16] value mutators are safe in either mode");
});

// ---- mutators that do not implement a method return None for it (default trait methods) ---------
both!(u8_not_applicable_arb, u8_not_applicable_rand, 10, |src| {
    let rate = any_rate();
    assert!(BitFlipMutator.mutate_float(kani::any(), src, rate).is_none());
    assert!(BitFlipMutator.mutate_memo_index(kani::any(), src, rate).is_none());
    assert!(BoundaryMutator.mutate_memo_index(kani::any(), src, rate).is_none());
    assert!(OffByOneMutator.mutate_float(kani::any(), src, rate).is_none());
    assert!(MemoIndexMutator::new(kani::any()).mutate_int(kani::any(), src, rate).is_none());
    assert!(StringLengthMutator.mutate_int(kani::any(), src, rate).is_none());
    assert!(CharacterMutator.mutate_int(kani::any(), src, rate).is_none());
    assert!(TypeConfusionMutator::new(kani::any()).mutate_int(kani::any(), src, rate).is_none());
    assert!(TypeConfusionMutator::new(kani::any()).is_unsafe());
});

// ---- strings and byte strings (bounded length) ---------------------------------------------------
const SLEN: usize = 4;

fn any_bytes_upto() -> Vec<u8> {
    let buf: [u8; SLEN] = kani::any();
    let len: usize = kani::any();
    kani::assume(len <= SLEN);
    buf[..len].to_vec()
}
fn is_prefix(p: &[u8], v: &[u8]) -> bool {
    if p.len() > v.len() { return false; }
    let mut i = 0;
    while i < p.len() { if p[i] != v[i] { return false; } i += 1; }
    true
}
fn is_doubled(r: &[u8], v: &[u8]) -> bool {
    if r.len() != 2 * v.len() { return false; }
    let mut i = 0;
    while i < v.len() { if r[i] != v[i] || r[v.len() + i] != v[i] { return false; } i += 1; }
    true
}

both!(u8_character_bytes_arb, u8_character_bytes_rand, 13, |src| {
    let v = any_bytes_upto();
    let rate = any_rate();
    let r = CharacterMutator.mutate_bytes(v.clone(), src, rate);
    if rate == 0.0 { assert!(r.is_none(), "[C15] rate 0.0 must never mutate"); }
    if rate == 1.0 && !v.is_empty() { assert!(r.is_some(), "[C15] rate 1.0 must always mutate an applicable value"); }
    if v.is_empty() { assert!(r.is_none(), "[C16] nothing to change in an empty value"); }
    if let Some(m) = r {
        assert!(m.len() == v.len(), "[C16] length must be kept");
        let mut diff = 0usize;
        let mut i = 0;
        while i < v.len() { if m[i] != v[i] { diff += 1; } i += 1; }
        assert!(diff <= 1, "[C16] at most one position may change");
    }
});

// ---- type confusion (post-emission rewrite) ------------------------------------------------------
// output = prefix ++ delta, both symbolic and short (bounded: prefix <= 3 bytes, delta 1..=3 bytes;
// the rewrite only looks at delta[0] and at the lengths).
fn value_pushing(op: u8) -> bool {
    matches!(op, 0x49 | 0x4a | 0x4b | 0x4d | 0x4c | 0x8a | 0x8b | 0x46 | 0x47 | 0x53 | 0x56 | 0x8c | 0x58 | 0x8d
        | 0x42 | 0x43 | 0x8e | 0x54 | 0x55 | 0x5d | 0x6c | 0x29 | 0x74 | 0x85 | 0x86 | 0x87 | 0x7d | 0x64 | 0x4e | 0x88 | 0x89)
}
/// the StackType class of an opcode byte per the statement of C16 (int/float/str/bytes/list/tuple/dict/none/bool)
fn class_of(op: u8) -> u8 {
    match op {
        0x49 | 0x4a | 0x4b | 0x4d | 0x4c | 0x8a | 0x8b => 1,
        0x46 | 0x47 => 2,
        0x53 | 0x56 | 0x8c | 0x58 | 0x8d => 3,
        0x42 | 0x43 | 0x8e | 0x54 | 0x55 => 4,
        0x5d | 0x6c => 5,
        0x29 | 0x74 | 0x85 | 0x86 | 0x87 => 6,
        0x7d | 0x64 => 7,
        0x4e => 8,
        0x88 | 0x89 => 9,
        _ => 0,
    }
}
/// length of the single complete opcode the rewrite may produce, from its first byte
fn replacement_len(op: u8, second: Option<u8>) -> Option<usize> {
    match op {
        0x4a => Some(5), 0x47 => Some(9),
        0x8c | 0x43 => second.map(|n| 2 + n as usize),
        0x5d | 0x7d | 0x29 | 0x4e | 0x88 | 0x89 => Some(1),
        _ => None,
    }
}
both!(u8_typeconfusion_arb, u8_typeconfusion_rand, 14, |src| {
    let pre: [u8; 3] = kani::any();
    let plen: usize = kani::any();
    kani::assume(plen <= 3);
    let del: [u8; 3] = kani::any();
    let dlen: usize = kani::any();
    kani::assume(dlen <= 3);
    let mut output: Vec<u8> = Vec::with_capacity(16);
    output.extend_from_slice(&pre[..plen]);
    output.extend_from_slice(&del[..dlen]);
    let snapshot = EmissionSnapshot {
        stack_depth: kani::any(), output_len: plen, memo_size: kani::any(),
        stack_delta: Vec::new(), output_delta: del[..dlen].to_vec(), memo_delta: Vec::new(),
    };
    let unsafe_mode: bool = kani::any();
    let rate = any_rate();
    let before_len = output.len();
    let fired = TypeConfusionMutator::new(unsafe_mode).post_process(&snapshot, &mut output, src, rate);
    if !unsafe_mode { assert!(!fired, "[C16] type confusion must do nothing in safe mode"); }
    if rate == 0.0 { assert!(!fired, "[C15] rate 0.0 must never rewrite emitted bytes"); }
    if dlen == 0 || !value_pushing(del[0]) { assert!(!fired, "[C16] only value-pushing opcodes may be replaced"); }
    if rate == 1.0 && unsafe_mode && dlen > 0 && value_pushing(del[0]) {
        assert!(fired, "[C15] rate 1.0 must always rewrite an applicable emission");
    }
    // frame: bytes before the emission are never touched
    let mut i = 0;
    while i < plen { assert!(output[i] == pre[i], "[C06] bytes before the emission must not change"); i += 1; }
    if !fired {
        assert!(output.len() == before_len, "[C15] output must be unchanged when the mutator does not fire");
        let mut j = 0;
        while j < dlen { assert!(output[plen + j] == del[j], "[C15] output must be unchanged when the mutator does not fire"); j += 1; }
    } else {
        let rep = &output[plen..];
        assert!(!rep.is_empty(), "[C04] replacement must be one complete opcode");
        let second = if rep.len() > 1 { Some(rep[1]) } else { None };
        let want = replacement_len(rep[0], second);
        assert!(want == Some(rep.len()), "[C04] [C16] replacement must be exactly one complete value-pushing opcode");
        assert!(class_of(rep[0]) != 0 && class_of(rep[0]) != class_of(del[0]), "[C16] replacement must push a different kind");
        assert!(rep[0] != 0x82 && rep[0] != 0x83 && rep[0] != 0x84 && rep[0] != 0x97 && rep[0] != 0x98 && rep[0] != 0x95,
            "[C10] replacement must not be an EXT/buffer/FRAME opcode");
    }
});
