//! BOUNDED STAND-IN for C18 (never counted as proof): the entropy adapters executed natively over
//! a fixed family of inputs.  Used only when the Kani harnesses give no verdict.
use super::source::{EntropySource, GenerationSource};
use arbitrary::Unstructured;
use rand::SeedableRng;
use rand_chacha::ChaCha8Rng;

const GRID: [usize; 14] = [0, 1, 2, 3, 95, 255, 256, 257, 65535, 65536, 65537, 1 << 32, usize::MAX - 1, usize::MAX];

fn hex(b: &[u8]) -> String { b.iter().map(|x| format!("{:02x}", x)).collect() }
fn inputs() -> Vec<Vec<u8>> {
    let mut v: Vec<Vec<u8>> = vec![vec![]];
    for b in 0..=255u8 { v.push(vec![b]); }
    for a in (0..=255u8).step_by(17) { for b in (0..=255u8).step_by(13) { v.push(vec![a, b]); } }
    let mut x: u64 = 0x2545F4914F6CDD1D;
    for i in 0..1200usize {
        let n = 3 + (i % 14);
        let mut e = Vec::with_capacity(n);
        for _ in 0..n { x ^= x << 13; x ^= x >> 7; x ^= x << 17; e.push((x >> 32) as u8); }
        v.push(e);
    }
    v
}

fn check(src: &mut GenerationSource, ent: &str, exhausted: bool, bad: &mut usize) {
    for &n in GRID.iter() {
        let r = src.choose_index(n);
        if !(r < n || (n == 0 && r == 0)) { *bad += 1; println!("NATIVE-VIOLATION [C18] choose_index({}) = {} entropy={}", n, r, ent); }
    }
    for &a in GRID.iter() { for &b in GRID.iter() {
        let r = src.gen_range(a, b);
        let ok = if a >= b { r == a } else { a <= r && r < b };
        if !ok { *bad += 1; println!("NATIVE-VIOLATION [C18] gen_range({}, {}) = {} entropy={}", a, b, r, ent); }
    } }
    let c = src.gen_ascii_char() as u32;
    if !(0x20..=0x7e).contains(&c) { *bad += 1; println!("NATIVE-VIOLATION [C18] gen_ascii_char = {:#x} entropy={}", c, ent); }
    for n in [0usize, 1, 2, 7, 16, 33] {
        let v = src.gen_bytes(n);
        if v.len() != n { *bad += 1; println!("NATIVE-VIOLATION [C18] gen_bytes({}) has length {} entropy={}", n, v.len(), ent); }
        if exhausted {
            // fixed fallback: a second exhausted source returns the same bytes (whatever they are)
            let none: [u8; 0] = [];
            let mut u2 = Unstructured::new(&none);
            let v2 = GenerationSource::Arbitrary(&mut u2).gen_bytes(n);
            if v2 != v { *bad += 1; println!("NATIVE-VIOLATION [C18] gen_bytes fallback is not fixed entropy={}", ent); }
        }
    }
    if exhausted {
        let none: [u8; 0] = [];
        let mut u2 = Unstructured::new(&none);
        let mut s2 = GenerationSource::Arbitrary(&mut u2);
        let ok = src.gen_bool() == s2.gen_bool() && src.gen_u8() == s2.gen_u8() && src.gen_u16() == s2.gen_u16() && src.gen_u32() == s2.gen_u32()
            && src.gen_i32() == s2.gen_i32() && src.gen_i64() == s2.gen_i64() && src.gen_f64().to_bits() == s2.gen_f64().to_bits();
        if !ok { *bad += 1; println!("NATIVE-VIOLATION [C18] exhausted input does not yield fixed fallbacks entropy={}", ent); }
    }
}

#[test]
fn verif_native_entropy() {
    let mut bad = 0usize;
    for e in inputs() {
        let mut u = Unstructured::new(&e);
        let mut s = GenerationSource::Arbitrary(&mut u);
        check(&mut s, &format!("bytes:{}", hex(&e)), e.is_empty(), &mut bad);
    }
    for seed in 0..64u64 {
        let mut rng = ChaCha8Rng::seed_from_u64(seed);
        let mut s = GenerationSource::Rand(&mut rng);
        check(&mut s, &format!("seed:{}", seed), false, &mut bad);
    }
    assert!(bad == 0, "{} native contract violations", bad);
}
