//! Kani harnesses living inside `crate::generator` (so they can reach pub(super) items).
//! U9: entropy adapters (C18).  Every harness is loop-free over the full argument domain except
//! where a bound is stated in its name/comment; unwinding assertions are on.
use super::source::{EntropySource, GenerationSource};
use arbitrary::Unstructured;

const NBYTES: usize = 10;

/// any fuzzer byte string of length 0..=NBYTES (no scalar draw reads more than 8 bytes)
macro_rules! any_unstructured {
    ($data:ident, $u:ident) => {
        let $data: [u8; NBYTES] = kani::any();
        let len: usize = kani::any();
        kani::assume(len <= NBYTES);
        let mut $u = Unstructured::new(&$data[..len]);
    };
}

#[kani::proof]
#[kani::unwind(10)]
fn u9_arb_choose_index() {
    any_unstructured!(data, u);
    let mut src = GenerationSource::Arbitrary(&mut u);
    let n: usize = kani::any();
    let r = src.choose_index(n);
    assert!(r < n || (n == 0 && r == 0), "[C18] index drawn among n alternatives must be below n (0 when n is 0)");
    // C12 helper: every residue is reachable is shown separately (cover harness)
}

#[kani::proof]
#[kani::unwind(10)]
fn u9_arb_gen_range() {
    any_unstructured!(data, u);
    let mut src = GenerationSource::Arbitrary(&mut u);
    let a: usize = kani::any();
    let b: usize = kani::any();
    let r = src.gen_range(a, b);
    if a >= b { assert!(r == a, "[C18] empty range must yield its lower bound"); } else { assert!(a <= r && r < b, "[C18] draw from [a,b) must lie in it"); }
}

#[kani::proof]
#[kani::unwind(10)]
fn u9_arb_gen_ascii_char() {
    any_unstructured!(data, u);
    let mut src = GenerationSource::Arbitrary(&mut u);
    let c = src.gen_ascii_char() as u32;
    assert!(c >= 0x20 && c <= 0x7e, "[C18] drawn character must be printable ASCII");
}

#[kani::proof]
#[kani::unwind(10)]
fn u9_arb_scalars_total_and_fallback() {
    any_unstructured!(data, u);
    let exhausted = u.is_empty();
    let mut src = GenerationSource::Arbitrary(&mut u);
    // no draw panics; on exhausted input each returns its fixed fallback
    let b = src.gen_bool();
    let x8 = src.gen_u8();
    let x16 = src.gen_u16();
    let x32 = src.gen_u32();
    let i32_ = src.gen_i32();
    let i64_ = src.gen_i64();
    let f = src.gen_f64();
    if exhausted {
        // "a fixed deterministic fallback": whatever the constants are, a second exhausted source yields the same ones
        // (which constants is not the property's business)
        let none: [u8; 0] = [];
        let mut u2 = Unstructured::new(&none);
        let mut s2 = GenerationSource::Arbitrary(&mut u2);
        let same = s2.gen_bool() == b && s2.gen_u8() == x8 && s2.gen_u16() == x16 && s2.gen_u32() == x32
            && s2.gen_i32() == i32_ && s2.gen_i64() == i64_ && s2.gen_f64().to_bits() == f.to_bits();
        assert!(same, "[C18] exhausted input must yield the fixed fallback");
    }
}

#[kani::proof]
#[kani::unwind(18)]
fn u9_arb_gen_bytes_bounded16() {
    // bounded(len <= 16): gen_bytes is dead code in the generator
    any_unstructured!(data, u);
    let mut src = GenerationSource::Arbitrary(&mut u);
    let n: usize = kani::any();
    kani::assume(n <= 16);
    let v = src.gen_bytes(n);
    assert!(v.len() == n, "[C18] drawn byte string must have the requested length");
}

// ---- PRNG source ---------------------------------------------------------------------------------
// The ChaCha8 block function is replaced by nondeterministic output (`kani::any()`), which
// over-approximates every PRNG state; rand's range reduction (`random_range`) and the `Standard`
// distributions run for real.
use rand::SeedableRng;
use rand_chacha::ChaCha8Rng;

fn any_u32(_r: &mut ChaCha8Rng) -> u32 { kani::any() }
fn any_u64(_r: &mut ChaCha8Rng) -> u64 { kani::any() }
fn any_fill(_r: &mut ChaCha8Rng, dst: &mut [u8]) {
    let mut i = 0;
    while i < dst.len() { dst[i] = kani::any(); i += 1; }
}

macro_rules! any_rng {
    ($rng:ident) => {
        // the generator state is never read (its output functions are stubbed), so any bit pattern
        // will do; ChaCha's own initialisation calls CPUID, which CBMC does not model
        let mut $rng: ChaCha8Rng = unsafe { core::mem::zeroed() };
    };
}

/// the grid of the property statement plus neighbours; rng output fully symbolic => complete per n
const GRID: [usize; 14] = [0, 1, 2, 3, 95, 255, 256, 257, 65535, 65536, 65537, 1 << 32, usize::MAX - 1, usize::MAX];

#[kani::proof]
#[kani::unwind(16)]
#[kani::stub(<ChaCha8Rng as rand::RngCore>::next_u32, any_u32)]
#[kani::stub(<ChaCha8Rng as rand::RngCore>::next_u64, any_u64)]
fn u9_rand_choose_index_grid() {
    any_rng!(rng);
    let mut src = GenerationSource::Rand(&mut rng);
    let k: usize = kani::any();
    kani::assume(k < GRID.len());
    let n = GRID[k];
    let r = src.choose_index(n);
    assert!(r < n || (n == 0 && r == 0), "[C18] index drawn among n alternatives must be below n (0 when n is 0)");
}

#[kani::proof]
#[kani::unwind(10)]
#[kani::stub(<ChaCha8Rng as rand::RngCore>::next_u32, any_u32)]
#[kani::stub(<ChaCha8Rng as rand::RngCore>::next_u64, any_u64)]
fn u9_rand_choose_index_bounded_2p16() {
    // bounded: all n <= 2^16 (symbolic), every PRNG output
    any_rng!(rng);
    let mut src = GenerationSource::Rand(&mut rng);
    let n: usize = kani::any();
    kani::assume(n <= 65536);
    let r = src.choose_index(n);
    assert!(r < n || (n == 0 && r == 0), "[C18] index drawn among n alternatives must be below n (0 when n is 0)");
}

#[kani::proof]
#[kani::unwind(16)]
#[kani::stub(<ChaCha8Rng as rand::RngCore>::next_u32, any_u32)]
#[kani::stub(<ChaCha8Rng as rand::RngCore>::next_u64, any_u64)]
fn u9_rand_gen_range_grid() {
    any_rng!(rng);
    let mut src = GenerationSource::Rand(&mut rng);
    let (i, j): (usize, usize) = (kani::any(), kani::any());
    kani::assume(i < GRID.len() && j < GRID.len());
    let (a, b) = (GRID[i], GRID[j]);
    let r = src.gen_range(a, b);
    if a >= b { assert!(r == a, "[C18] empty range must yield its lower bound"); } else { assert!(a <= r && r < b, "[C18] draw from [a,b) must lie in it"); }
}

#[kani::proof]
#[kani::unwind(10)]
#[kani::stub(<ChaCha8Rng as rand::RngCore>::next_u32, any_u32)]
#[kani::stub(<ChaCha8Rng as rand::RngCore>::next_u64, any_u64)]
fn u9_rand_gen_range_small() {
    // bounded: 0 <= a, b <= 1024 symbolic (covers every range the generator itself asks for:
    // bit positions, boundary tables, 0..3, 1..10, 0..1000, memo key counts of small pickles)
    any_rng!(rng);
    let mut src = GenerationSource::Rand(&mut rng);
    let (a, b): (usize, usize) = (kani::any(), kani::any());
    kani::assume(a <= 1024 && b <= 1024);
    let r = src.gen_range(a, b);
    if a >= b { assert!(r == a, "[C18] empty range must yield its lower bound"); } else { assert!(a <= r && r < b, "[C18] draw from [a,b) must lie in it"); }
}

#[kani::proof]
#[kani::unwind(10)]
#[kani::stub(<ChaCha8Rng as rand::RngCore>::next_u32, any_u32)]
#[kani::stub(<ChaCha8Rng as rand::RngCore>::next_u64, any_u64)]
fn u9_rand_gen_ascii_char() {
    any_rng!(rng);
    let mut src = GenerationSource::Rand(&mut rng);
    let c = src.gen_ascii_char() as u32;
    assert!(c >= 0x20 && c <= 0x7e, "[C18] drawn character must be printable ASCII");
}

#[kani::proof]
#[kani::unwind(10)]
#[kani::stub(<ChaCha8Rng as rand::RngCore>::next_u32, any_u32)]
#[kani::stub(<ChaCha8Rng as rand::RngCore>::next_u64, any_u64)]
fn u9_rand_scalars_total() {
    any_rng!(rng);
    let mut src = GenerationSource::Rand(&mut rng);
    let _ = (src.gen_bool(), src.gen_u8(), src.gen_u16(), src.gen_u32(), src.gen_i32(), src.gen_i64());
    let f = src.gen_f64();
    assert!(f >= 0.0 && f < 1.0, "[C15] PRNG f64 draws lie in [0,1)");
}

#[kani::proof]
#[kani::unwind(18)]
#[kani::stub(<ChaCha8Rng as rand::RngCore>::fill_bytes, any_fill)]
#[kani::stub(<ChaCha8Rng as rand::RngCore>::next_u32, any_u32)]
#[kani::stub(<ChaCha8Rng as rand::RngCore>::next_u64, any_u64)]
fn u9_rand_gen_bytes_bounded16() {
    any_rng!(rng);
    let mut src = GenerationSource::Rand(&mut rng);
    let n: usize = kani::any();
    kani::assume(n <= 16);
    let v = src.gen_bytes(n);
    assert!(v.len() == n, "[C18] drawn byte string must have the requested length");
}

// ---- U7: opcode tables against the CPython reference (generated ref_tables_kani.rs) -------------------
mod reftab { include!("ref_tables_kani.rs"); }
use crate::opcodes::{OpcodeKind, PICKLE_OPCODES};

/// as_u8 of every kind is the CPython opcode byte (also proved in Verus; here on the compiled match)
#[kani::proof]
#[kani::unwind(70)]
fn u7_as_u8_all_kinds() {
    let i: usize = kani::any();
    kani::assume(i < reftab::ALL_KINDS.len());
    let k = reftab::ALL_KINDS[i];
    assert!(reftab::ref_index(k) == i);
    assert!(k.as_u8() == reftab::REF_OPS[i].code, "[C04] opcode byte differs from the CPython table");
}

/// PICKLE_OPCODES[v] == { k : introduced in protocol <= v }  (both inclusions), for every v in 0..=5;
/// concrete tables, the real phf lookup
#[kani::proof]
#[kani::unwind(70)]
fn u7_tables_exact() {
    let v: u8 = kani::any();
    kani::assume(v <= 5);
    let t = PICKLE_OPCODES.get(&v);
    assert!(t.is_some(), "[C05] no opcode table for a protocol in 0..=5");
    let t = t.unwrap();
    let mut seen = [false; 68];
    let mut i = 0;
    while i < t.len() {
        let r = reftab::ref_index(t[i]);
        assert!(reftab::REF_OPS[r].proto <= v, "[C05] table of protocol v lists an opcode introduced later");
        seen[r] = true;
        i += 1;
    }
    let mut j = 0;
    while j < 68 {
        if reftab::REF_OPS[j].proto <= v {
            assert!(seen[j], "[C12] an opcode of the protocol's vocabulary is missing from its table");
        }
        j += 1;
    }
    assert!(PICKLE_OPCODES.get(&6u8).is_none());
}

// ---- C12 helpers: in fuzzer-bytes mode every alternative can be selected ----------------------------
/// choose_index(n) is onto [0, n): for every n <= 65536 and every t < n there is an input (written
/// out here) that selects t -- so no candidate opcode is unreachable by the uniform choice.
#[kani::proof]
#[kani::unwind(10)]
fn u9_arb_choose_index_onto() {
    let n: usize = kani::any();
    kani::assume(n >= 1 && n <= 65536);
    let t: usize = kani::any();
    kani::assume(t < n);
    let two = [(t >> 8) as u8, (t & 0xff) as u8];
    let one = [t as u8];
    let mut u = if n - 1 >= 256 { Unstructured::new(&two) } else { Unstructured::new(&one) };
    let mut src = GenerationSource::Arbitrary(&mut u);
    assert!(src.choose_index(n) == t, "[C12?] the fixed witness input (big-endian index bytes) does not select the alternative");
}
/// the same for gen_range(0, n): a maintainer may well draw the candidate index with it instead of choose_index
#[kani::proof]
#[kani::unwind(10)]
fn u9_arb_gen_range_onto() {
    let n: usize = kani::any();
    kani::assume(n >= 1 && n <= 65536);
    let t: usize = kani::any();
    kani::assume(t < n);
    let two = [(t >> 8) as u8, (t & 0xff) as u8];
    let one = [t as u8];
    let mut u = if n - 1 >= 256 { Unstructured::new(&two) } else { Unstructured::new(&one) };
    let mut src = GenerationSource::Arbitrary(&mut u);
    assert!(src.gen_range(0, n) == t, "[C12?] the fixed witness input (big-endian index bytes) does not select the alternative");
}
/// gen_bool takes both values (framed and unframed pickles for protocol >= 4)
#[kani::proof]
#[kani::unwind(10)]
fn u9_arb_gen_bool_both() {
    let (d0, d1) = ([0u8], [1u8]);
    let mut u0 = Unstructured::new(&d0);
    let mut u1 = Unstructured::new(&d1);
    let b0 = GenerationSource::Arbitrary(&mut u0).gen_bool();
    let b1 = GenerationSource::Arbitrary(&mut u1).gen_bool();
    assert!(b0 != b1, "[C12?] the fixed witness inputs 00 / 01 give the same coin");
}

// ---- U0: cross-checks of the std specs the Verus shim (contracts/shim.rs) assumes -------------------
// Each harness runs the REAL std function on every value of its domain and compares with the
// executable form of the spec the shim states.
use crate::protocol::Version;

fn any_version() -> Version {
    let k: u8 = kani::any();
    kani::assume(k <= 5);
    match k { 0 => Version::V0, 1 => Version::V1, 2 => Version::V2, 3 => Version::V3, 4 => Version::V4, _ => Version::V5 }
}
fn ver_num(v: Version) -> u8 {
    match v { Version::V0 => 0, Version::V1 => 1, Version::V2 => 2, Version::V3 => 3, Version::V4 => 4, Version::V5 => 5 }
}

#[kani::proof]
fn u0_byte_order() {
    let x: u32 = kani::any();
    let b = x.to_le_bytes();
    assert!((b[0] as u32) | ((b[1] as u32) << 8) | ((b[2] as u32) << 16) | ((b[3] as u32) << 24) == x, "[U0] u32::to_le_bytes is not little endian");
    assert!(u32::from_le_bytes(b) == x, "[U0] u32 le round trip");
    let y: u16 = kani::any();
    let c = y.to_le_bytes();
    assert!((c[0] as u16) + 256 * (c[1] as u16) == y && u16::from_le_bytes(c) == y, "[U0] u16 le");
    let z: u64 = kani::any();
    let d = z.to_le_bytes();
    let mut acc: u64 = 0;
    let mut i = 0;
    while i < 8 { acc |= (d[i] as u64) << (8 * i); i += 1; }
    assert!(acc == z && u64::from_le_bytes(d) == z, "[U0] u64 le");
    let w: i32 = kani::any();
    assert!(u32::from_le_bytes(w.to_le_bytes()) == w as u32 && i32::from_le_bytes(w.to_le_bytes()) == w, "[U0] i32 le");
    let f: f64 = kani::any();
    assert!(f64::from_be_bytes(f.to_be_bytes()).to_bits() == f.to_bits(), "[U0] f64 be round trip");
}

#[kani::proof]
fn u0_saturating_and_min() {
    let (a, b): (u8, u8) = (kani::any(), kani::any());
    assert!(a.saturating_add(b) as u32 == core::cmp::min(a as u32 + b as u32, 255), "[U0] u8::saturating_add");
    let (c, d): (u16, u16) = (kani::any(), kani::any());
    assert!(c.saturating_add(d) as u32 == core::cmp::min(c as u32 + d as u32, 65535), "[U0] u16::saturating_add");
    let (x, y): (usize, usize) = (kani::any(), kani::any());
    assert!(x.saturating_sub(y) == if x >= y { x - y } else { 0 }, "[U0] usize::saturating_sub");
    assert!(x.checked_sub(y) == if x >= y { Some(x - y) } else { None }, "[U0] usize::checked_sub");
    assert!(x.min(y) == if x <= y { x } else { y }, "[U0] usize::min");
}

#[kani::proof]
fn u0_version_order_and_cast() {
    let (a, b) = (any_version(), any_version());
    assert!((a >= b) == (ver_num(a) >= ver_num(b)), "[U0] derived PartialOrd of Version is declaration order");
    assert!((a == b) == (ver_num(a) == ver_num(b)), "[U0] derived PartialEq of Version");
    assert!(a as u8 == ver_num(a), "[U0] `version as u8` is the protocol number");
    assert!(Version::try_from(ver_num(a) as usize).is_ok(), "[U0] Version::try_from accepts 0..=5");
}

#[kani::proof]
#[kani::unwind(14)]
fn u0_copy_le_u64_into_vec() {
    // v[p..p + 8].copy_from_slice(&x.to_le_bytes()) on a 12-byte vector, every p that fits
    let init: [u8; 12] = kani::any();
    let mut v = init.to_vec();
    let p: usize = kani::any();
    kani::assume(p <= 4);
    let x: u64 = kani::any();
    v[p..p + 8].copy_from_slice(&x.to_le_bytes());
    assert!(v.len() == 12, "[U0] copy_from_slice changes the length");
    let mut i = 0;
    while i < 12 {
        if i < p || i >= p + 8 { assert!(v[i] == init[i], "[U0] copy_from_slice touches bytes outside the range"); }
        else { assert!(v[i] == (x >> (8 * (i - p))) as u8, "[U0] copy_from_slice bytes"); }
        i += 1;
    }
}
