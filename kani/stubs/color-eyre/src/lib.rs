//! Stand-in for `color_eyre` in the Kani harness crate only (the real crate's dependency
//! `backtrace` does not compile on Kani's pinned toolchain).  Error values are never inspected by
//! any harness; the proofs show the Err paths are unreachable.
pub mod eyre {
    #[derive(Debug)]
    pub struct Report;
    pub type Error = Report;
    pub type Result<T, E = Report> = core::result::Result<T, E>;
    #[macro_export]
    macro_rules! eyre {
        ($($t:tt)*) => { $crate::eyre::Report };
    }
    pub use crate::eyre;
    impl core::fmt::Display for Report {
        fn fmt(&self, f: &mut core::fmt::Formatter<'_>) -> core::fmt::Result { f.write_str("error") }
    }
}
pub use eyre::{Report, Result};
