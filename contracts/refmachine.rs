// Reference pickle machine (semantics layer), hand-written from the property statements C01-C03,
// C17 and the CPython pickle documentation -- NOT from /repo/src.  The table layer
// (ref_code / ref_proto / ref_pops / ref_pushes / ref_uses_mark) is generated from CPython
// pickletools by oracle/gen_tables.py and is included before this file.
//
// State: a flat stack of kinds (MARK is an ordinary element, exactly as in pickletools.dis), a memo
// from index to kind, and the number of memo entries defined so far.
verus! {

pub enum Kind { Int, Float, Bool, None, Bytes, String, ByteArray, List, Tuple, Dict, Set, FrozenSet,
                Mark, Global, Instance, Callable, Extension, Any }

pub struct RefState {
    pub stack: Seq<Kind>,
    pub memo: Map<int, Kind>,
    pub memo_len: int,
}

/// Argument of an opcode as the reference machine sees it (only what matters for the stack/memo
/// discipline): the memo index for GET/PUT families, nothing otherwise.
pub struct RefArg { pub idx: int }

pub open spec fn empty_state() -> RefState {
    RefState { stack: Seq::empty(), memo: Map::empty(), memo_len: 0 }
}

/// index of the topmost MARK, or -1
pub open spec fn top_mark(s: Seq<Kind>) -> int
    decreases s.len()
{
    if s.len() == 0 { -1 }
    else if s.last() == Kind::Mark { s.len() - 1 }
    else { top_mark(s.drop_last()) }
}

pub open spec fn is_get(op: OpcodeKind) -> bool {
    op == OpcodeKind::Get || op == OpcodeKind::BinGet || op == OpcodeKind::LongBinGet
}
pub open spec fn is_put(op: OpcodeKind) -> bool {
    op == OpcodeKind::Put || op == OpcodeKind::BinPut || op == OpcodeKind::LongBinPut
}

// ---------------------------------------------------------------------------------------------
// C01: stack discipline (pickletools.dis): enough operands, a MARK for MARK-consuming opcodes
// (plus the operands the opcode takes from *below* the MARK), exactly one object for STOP.
pub open spec fn ref_pre_stack(op: OpcodeKind, s: RefState) -> bool {
    if op == OpcodeKind::Stop {
        s.stack.len() == 1 && s.stack[0] != Kind::Mark
    } else if ref_uses_mark(op) {
        top_mark(s.stack) >= ref_pops(op)
    } else {
        s.stack.len() >= ref_pops(op)
    }
}

// ---------------------------------------------------------------------------------------------
// C02: memo discipline.
pub open spec fn ref_pre_memo(op: OpcodeKind, a: RefArg, s: RefState) -> bool {
    if is_get(op) {
        a.idx >= 0 && s.memo.dom().contains(a.idx)
    } else if is_put(op) {
        a.idx >= 0 && !s.memo.dom().contains(a.idx)
            && s.stack.len() >= 1 && s.stack.last() != Kind::Mark
    } else if op == OpcodeKind::Memoize {
        !s.memo.dom().contains(s.memo_len)
            && s.stack.len() >= 1 && s.stack.last() != Kind::Mark
    } else {
        true
    }
}

// ---------------------------------------------------------------------------------------------
// C03: operand kinds.  `Any` stands for an operand whose kind the format leaves open.
pub open spec fn accepts(want: Kind, k: Kind) -> bool { k == want || k == Kind::Any }

pub open spec fn is_data_kind(k: Kind) -> bool {
    k == Kind::Int || k == Kind::Float || k == Kind::Bool || k == Kind::None || k == Kind::Bytes
    || k == Kind::String || k == Kind::ByteArray || k == Kind::List || k == Kind::Tuple
    || k == Kind::Dict || k == Kind::Set || k == Kind::FrozenSet || k == Kind::Mark
}

/// item at depth d from the top (0 = top)
pub open spec fn at(s: Seq<Kind>, d: int) -> Kind { s[s.len() - 1 - d] }

pub open spec fn items_above_mark(s: Seq<Kind>) -> int { s.len() - 1 - top_mark(s) }

pub open spec fn ref_pre_kind(op: OpcodeKind, s: RefState) -> bool {
    let st = s.stack;
    let tm = top_mark(st);
    match op {
        OpcodeKind::Append => st.len() >= 2 && accepts(Kind::List, at(st, 1)),
        OpcodeKind::Appends => tm >= 1 && accepts(Kind::List, st[tm - 1]),
        OpcodeKind::SetItem => st.len() >= 3 && accepts(Kind::Dict, at(st, 2)),
        OpcodeKind::SetItems => tm >= 1 && accepts(Kind::Dict, st[tm - 1]) && items_above_mark(st) % 2 == 0,
        OpcodeKind::AddItems => tm >= 1 && accepts(Kind::Set, st[tm - 1]),
        OpcodeKind::Dict => tm >= 0 && items_above_mark(st) % 2 == 0,
        OpcodeKind::StackGlobal => st.len() >= 2 && accepts(Kind::String, at(st, 0)) && accepts(Kind::String, at(st, 1)),
        OpcodeKind::Reduce | OpcodeKind::NewObj =>
            st.len() >= 2 && accepts(Kind::Tuple, at(st, 0)) && !is_data_kind(at(st, 1)),
        OpcodeKind::NewObjEx =>
            st.len() >= 3 && accepts(Kind::Dict, at(st, 0)) && accepts(Kind::Tuple, at(st, 1)) && !is_data_kind(at(st, 2)),
        OpcodeKind::Build =>
            st.len() >= 2 && (accepts(Kind::Tuple, at(st, 0)) || accepts(Kind::Dict, at(st, 0)))
            && accepts(Kind::Instance, at(st, 1)),
        OpcodeKind::Obj => tm >= 0 && tm + 1 < st.len() && !is_data_kind(st[tm + 1]),
        OpcodeKind::Dup => st.len() >= 1 && st.last() != Kind::Mark,
        // the operand of READONLY_BUFFER is a buffer object, never a MARK
        OpcodeKind::ReadOnlyBuffer => st.len() >= 1 && st.last() != Kind::Mark,
        _ => true,
    }
}

pub open spec fn ref_pre(op: OpcodeKind, a: RefArg, s: RefState) -> bool {
    ref_pre_stack(op, s) && ref_pre_memo(op, a, s) && ref_pre_kind(op, s)
}

// ---------------------------------------------------------------------------------------------
// Effect.  What each opcode leaves on the stack.  Kinds the format leaves open are `Any`
// (persistent ids, extension objects, out-of-band buffers, the str-or-bytes / int-or-bool results
// of the protocol-0/1 STRING family and INT).
pub open spec fn ref_push_kind(op: OpcodeKind) -> Kind {
    match op {
        OpcodeKind::BinInt | OpcodeKind::BinInt1 | OpcodeKind::BinInt2
        | OpcodeKind::Long | OpcodeKind::Long1 | OpcodeKind::Long4 => Kind::Int,
        OpcodeKind::Int => Kind::Any,                       // int_or_bool
        OpcodeKind::String | OpcodeKind::BinString | OpcodeKind::ShortBinString => Kind::Any, // bytes_or_str
        OpcodeKind::BinBytes | OpcodeKind::ShortBinBytes | OpcodeKind::BinBytes8 => Kind::Bytes,
        OpcodeKind::ByteArray8 => Kind::ByteArray,
        OpcodeKind::NextBuffer | OpcodeKind::ReadOnlyBuffer => Kind::Any,
        OpcodeKind::None => Kind::None,
        OpcodeKind::NewTrue | OpcodeKind::NewFalse => Kind::Bool,
        OpcodeKind::Unicode | OpcodeKind::ShortBinUnicode | OpcodeKind::BinUnicode
        | OpcodeKind::BinUnicode8 => Kind::String,
        OpcodeKind::Float | OpcodeKind::BinFloat => Kind::Float,
        OpcodeKind::EmptyList | OpcodeKind::List => Kind::List,
        OpcodeKind::EmptyTuple | OpcodeKind::Tuple | OpcodeKind::Tuple1 | OpcodeKind::Tuple2
        | OpcodeKind::Tuple3 => Kind::Tuple,
        OpcodeKind::EmptyDict | OpcodeKind::Dict => Kind::Dict,
        OpcodeKind::EmptySet => Kind::Set,
        OpcodeKind::FrozenSet => Kind::FrozenSet,
        OpcodeKind::Mark => Kind::Mark,
        OpcodeKind::Ext1 | OpcodeKind::Ext2 | OpcodeKind::Ext4 => Kind::Any,
        OpcodeKind::PersID | OpcodeKind::BinPersID => Kind::Any,
        OpcodeKind::Global | OpcodeKind::StackGlobal => Kind::Callable,
        OpcodeKind::Reduce | OpcodeKind::Inst | OpcodeKind::Obj | OpcodeKind::NewObj
        | OpcodeKind::NewObjEx => Kind::Instance,
        _ => Kind::Any,
    }
}

pub open spec fn ref_step_stack(op: OpcodeKind, a: RefArg, s: RefState) -> Seq<Kind> {
    let st = s.stack;
    let tm = top_mark(st);
    match op {
        // no stack effect
        OpcodeKind::Proto | OpcodeKind::Frame
        | OpcodeKind::Put | OpcodeKind::BinPut | OpcodeKind::LongBinPut | OpcodeKind::Memoize => st,
        OpcodeKind::Stop | OpcodeKind::Pop => st.drop_last(),
        OpcodeKind::Dup => st.push(st.last()),
        // collapse to the topmost MARK
        OpcodeKind::PopMark | OpcodeKind::Appends | OpcodeKind::SetItems | OpcodeKind::AddItems =>
            st.subrange(0, tm),
        OpcodeKind::List | OpcodeKind::Tuple | OpcodeKind::Dict | OpcodeKind::FrozenSet
        | OpcodeKind::Inst | OpcodeKind::Obj =>
            st.subrange(0, tm).push(ref_push_kind(op)),
        // container updates leave the container
        OpcodeKind::Append => st.drop_last(),
        OpcodeKind::SetItem => st.drop_last().drop_last(),
        // BUILD leaves the object it was applied to
        OpcodeKind::Build => st.drop_last(),
        // READONLY_BUFFER replaces the top by its read-only view
        OpcodeKind::ReadOnlyBuffer => st.drop_last().push(Kind::Any),
        OpcodeKind::Get | OpcodeKind::BinGet | OpcodeKind::LongBinGet => st.push(s.memo[a.idx]),
        // fixed arity: pop ref_pops, push one
        _ => st.subrange(0, st.len() - ref_pops(op)).push(ref_push_kind(op)),
    }
}

pub open spec fn ref_step(op: OpcodeKind, a: RefArg, s: RefState) -> RefState {
    let st = ref_step_stack(op, a, s);
    if is_put(op) {
        RefState { stack: st, memo: s.memo.insert(a.idx, s.stack.last()), memo_len: s.memo_len + 1 }
    } else if op == OpcodeKind::Memoize {
        RefState { stack: st, memo: s.memo.insert(s.memo_len, s.stack.last()), memo_len: s.memo_len + 1 }
    } else {
        RefState { stack: st, memo: s.memo, memo_len: s.memo_len }
    }
}

/// What the *simulation* has to mirror: STOP ends the program and the simulation does not model
/// its pop (the reference precondition of STOP -- exactly one object -- is still required).
pub open spec fn sim_step(op: OpcodeKind, a: RefArg, s: RefState) -> RefState {
    if op == OpcodeKind::Stop { s } else { ref_step(op, a, s) }
}

/// memo indices are handed out contiguously from 0 (how the generator guarantees fresh PUT indices)
pub open spec fn contig(s: RefState) -> bool {
    s.memo_len >= 0 && forall|k: int| #[trigger] s.memo.dom().contains(k) <==> 0 <= k < s.memo_len
}

pub type Trace = Seq<(OpcodeKind, RefArg)>;

/// run a trace from s (simulation view: see sim_step)
pub open spec fn ref_run(s: RefState, t: Trace) -> RefState
    decreases t.len()
{
    if t.len() == 0 { s } else { sim_step(t.last().0, t.last().1, ref_run(s, t.drop_last())) }
}

/// every step of the trace satisfies the reference preconditions (C01, C02, C03)
pub open spec fn ref_run_ok(s: RefState, t: Trace) -> bool
    decreases t.len()
{
    t.len() == 0 || (ref_run_ok(s, t.drop_last()) && ref_pre(t.last().0, t.last().1, ref_run(s, t.drop_last())))
}

pub proof fn lemma_run_push(s: RefState, t: Trace, op: OpcodeKind, a: RefArg)
    ensures
        ref_run(s, t.push((op, a))) == sim_step(op, a, ref_run(s, t)),
        ref_run_ok(s, t.push((op, a))) == (ref_run_ok(s, t) && ref_pre(op, a, ref_run(s, t))),
{
    assert(t.push((op, a)).drop_last() =~= t);
}

pub proof fn lemma_run_concat(s: RefState, t: Trace, u: Trace)
    ensures
        ref_run(s, t + u) == ref_run(ref_run(s, t), u),
        ref_run_ok(s, t + u) == (ref_run_ok(s, t) && ref_run_ok(ref_run(s, t), u)),
    decreases u.len()
{
    if u.len() == 0 {
        assert(t + u =~= t);
    } else {
        lemma_run_concat(s, t, u.drop_last());
        assert((t + u).drop_last() =~= t + u.drop_last());
        assert((t + u).last() == u.last());
    }
}

/// opcode bytes of a trace of argument-less opcodes
pub open spec fn codes(t: Trace) -> Seq<u8>
    decreases t.len()
{
    if t.len() == 0 { Seq::empty() } else { codes(t.drop_last()).push(ref_code(t.last().0) as u8) }
}
pub proof fn lemma_codes_push(t: Trace, op: OpcodeKind, a: RefArg)
    ensures codes(t.push((op, a))) == codes(t).push(ref_code(op) as u8)
{
    assert(t.push((op, a)).drop_last() =~= t);
}

/// one TUPLE step of the collapse phase removes exactly one MARK and never grows the stack
pub proof fn lemma_tuple_step(r0: Seq<Kind>)
    requires top_mark(r0) >= 0
    ensures
        count_marks(r0.subrange(0, top_mark(r0)).push(Kind::Tuple)) == count_marks(r0) - 1,
        r0.subrange(0, top_mark(r0)).push(Kind::Tuple).len() <= r0.len(),
{
    lemma_top_mark_props(r0);
    lemma_count_marks_cut(r0);
    lemma_count_marks_push(r0.subrange(0, top_mark(r0)), Kind::Tuple);
}

/// popping k items from a MARK-free stack and pushing a non-MARK keeps it MARK-free
pub proof fn lemma_nomark_step(r0: Seq<Kind>, k: int, push: bool)
    requires count_marks(r0) == 0, 0 <= k <= r0.len()
    ensures
        count_marks(r0.subrange(0, r0.len() - k)) == 0,
        push ==> count_marks(r0.subrange(0, r0.len() - k).push(Kind::Tuple)) == 0,
        top_mark(r0) < 0,
{
    lemma_count_marks_prefix(r0, r0.len() - k);
    lemma_count_marks_bounds(r0.subrange(0, r0.len() - k));
    lemma_count_marks_bounds(r0);
    lemma_count_marks_push(r0.subrange(0, r0.len() - k), Kind::Tuple);
}

// ---------------------------------------------------------------------------------------------
// C04: wire format of ONE opcode (hand-written from the pickle format; argument classes from the
// generated table ref_arg).  Text arguments are judged by the uninterpreted predicate text_ok, which
// the assumed specs of the formatting shims establish (format!/escape facts are std assumptions).
pub open spec fn le2(c: Seq<u8>, i: int) -> int { c[i] as int + 256 * (c[i + 1] as int) }
pub open spec fn le4(c: Seq<u8>, i: int) -> int {
    vstd::bytes::spec_u32_from_le_bytes(seq![c[i], c[i + 1], c[i + 2], c[i + 3]]) as int
}
pub open spec fn le8(c: Seq<u8>, i: int) -> int {
    vstd::bytes::spec_u64_from_le_bytes(seq![c[i], c[i + 1], c[i + 2], c[i + 3], c[i + 4], c[i + 5], c[i + 6], c[i + 7]]) as int
}
/// content of a text argument (digits, float syntax, quoting/escapes, ...): judged only through the
/// assumed specs of the formatting shims
pub uninterp spec fn text_content_ok(cls: ArgClass, t: Seq<u8>) -> bool;
pub open spec fn no_nl(t: Seq<u8>, a: int, b: int) -> bool { forall|i: int| a <= i < b ==> t[i] != 0x0au8 }
/// shape of a text argument: newline-terminated, no other newline (exactly one other for the
/// two-line arguments of GLOBAL / INST) -- this is what makes text arguments self-delimiting
pub open spec fn line_shape(cls: ArgClass, t: Seq<u8>) -> bool {
    &&& t.len() >= 1 && t[t.len() - 1] == 0x0au8
    &&& if cls == ArgClass::LinePairNl {
            exists|j: int| 0 <= j < t.len() - 1 && #[trigger] t[j] == 0x0au8 && no_nl(t, 0, j) && no_nl(t, j + 1, t.len() - 1)
        } else {
            no_nl(t, 0, t.len() - 1)
        }
}
/// t is a complete, well-formed newline-terminated argument of the given text class
pub open spec fn text_ok(cls: ArgClass, t: Seq<u8>) -> bool { line_shape(cls, t) && text_content_ok(cls, t) }

pub open spec fn enc_ok(op: OpcodeKind, c: Seq<u8>) -> bool {
    &&& c.len() >= 1 && c[0] == ref_code(op) as u8
    &&& match ref_arg(op) {
        ArgClass::NoArg => c.len() == 1,
        ArgClass::U1 => c.len() == 2 && (op == OpcodeKind::Ext1 ==> c[1] >= 1),
        ArgClass::U2 => c.len() == 3 && (op == OpcodeKind::Ext2 ==> le2(c, 1) >= 1),
        ArgClass::I4 => c.len() == 5 && (op == OpcodeKind::Ext4 ==> 1 <= le4(c, 1) < 0x8000_0000),
        ArgClass::U4 => c.len() == 5,
        ArgClass::U8 => c.len() == 9,
        ArgClass::F8 => c.len() == 9,
        ArgClass::Counted1 => c.len() >= 2 && c.len() == 2 + c[1],
        ArgClass::Counted4 => c.len() >= 5 && c.len() == 5 + le4(c, 1),
        ArgClass::Counted4S => c.len() >= 5 && c.len() == 5 + le4(c, 1) && le4(c, 1) < 0x8000_0000,
        ArgClass::Counted8 => c.len() >= 9 && c.len() == 9 + le8(c, 1),
        cls => c.len() >= 2 && text_ok(cls, c.subrange(1, c.len() as int)),
    }
}

// ---------------------------------------------------------------------------------------------
// Framing: a left-to-right lexer that knows only the opcode table re-discovers exactly the chunk
// boundaries (and opcodes) the emitters produced.  `lex_len(s, p)` is the length such a lexer reads at
// offset p; it looks at the opcode byte, at a length prefix, or scans for the terminating newline(s).
pub open spec fn after_nl(s: Seq<u8>, from: int) -> int
    decreases s.len() - from
{
    if from < 0 || from >= s.len() { s.len() as int + 1 } else if s[from] == 0x0au8 { from + 1 } else { after_nl(s, from + 1) }
}
pub open spec fn lex_len(s: Seq<u8>, p: int) -> int {
    match ref_arg(ref_op_of_byte(s[p])) {
        ArgClass::NoArg => 1,
        ArgClass::U1 => 2,
        ArgClass::U2 => 3,
        ArgClass::I4 => 5,
        ArgClass::U4 => 5,
        ArgClass::U8 => 9,
        ArgClass::F8 => 9,
        ArgClass::Counted1 => 2 + s[p + 1],
        ArgClass::Counted4 => 5 + le4(s, p + 1),
        ArgClass::Counted4S => 5 + le4(s, p + 1),
        ArgClass::Counted8 => 9 + le8(s, p + 1),
        ArgClass::LinePairNl => after_nl(s, after_nl(s, p + 1)) - p,
        _ => after_nl(s, p + 1) - p,
    }
}
pub proof fn lemma_after_nl(s: Seq<u8>, from: int, k: int)
    requires 0 <= from <= k < s.len(), s[k] == 0x0au8, forall|i: int| from <= i < k ==> s[i] != 0x0au8
    ensures after_nl(s, from) == k + 1
    decreases k - from
{
    if from < k { lemma_after_nl(s, from + 1, k); }
}
/// one chunk: if `c` (a well-formed encoding of `op`) sits at offset p of s, the lexer reads `op` and |c| bytes
pub proof fn lemma_lex_one(s: Seq<u8>, p: int, op: OpcodeKind, c: Seq<u8>)
    requires 0 <= p, p + c.len() <= s.len(), s.subrange(p, p + c.len()) == c, enc_ok(op, c)
    ensures ref_op_of_byte(s[p]) == op, lex_len(s, p) == c.len()
{
    assert(s[p] == c[0]) by { assert(s.subrange(p, p + c.len())[0] == s[p]); }
    lemma_op_of_byte_ref(op);
    assert forall|i: int| 0 <= i < c.len() implies s[p + i] == #[trigger] c[i] by {
        assert(s.subrange(p, p + c.len())[i] == s[p + i]);
    }
    let cls = ref_arg(op);
    if cls == ArgClass::Counted4 || cls == ArgClass::Counted4S {
        assert(c[1] == s[p + 1] && c[2] == s[p + 2] && c[3] == s[p + 3] && c[4] == s[p + 4]);
        assert(seq![s[p + 1], s[p + 2], s[p + 3], s[p + 4]] =~= seq![c[1], c[2], c[3], c[4]]);
    } else if cls == ArgClass::Counted8 {
        assert(c[1] == s[p + 1] && c[2] == s[p + 2] && c[3] == s[p + 3] && c[4] == s[p + 4]
            && c[5] == s[p + 5] && c[6] == s[p + 6] && c[7] == s[p + 7] && c[8] == s[p + 8]);
        assert(seq![s[p + 1], s[p + 2], s[p + 3], s[p + 4], s[p + 5], s[p + 6], s[p + 7], s[p + 8]]
            =~= seq![c[1], c[2], c[3], c[4], c[5], c[6], c[7], c[8]]);
    } else if cls == ArgClass::Counted1 {
        assert(c[1] == s[p + 1]);
    } else if cls == ArgClass::NoArg || cls == ArgClass::U1 || cls == ArgClass::U2 || cls == ArgClass::I4
        || cls == ArgClass::U4 || cls == ArgClass::U8 || cls == ArgClass::F8 {
    } else {
        // text classes: t = c[1..] is newline terminated with the prescribed number of inner newlines
        let t = c.subrange(1, c.len() as int);
        let n = t.len() as int;
        assert(forall|i: int| 0 <= i < n ==> t[i] == s[p + 1 + i]) by {
            assert forall|i: int| 0 <= i < n implies t[i] == s[p + 1 + i] by { assert(t[i] == c[1 + i]); }
        }
        if cls == ArgClass::LinePairNl {
            let j = choose|j: int| 0 <= j < n - 1 && #[trigger] t[j] == 0x0au8 && no_nl(t, 0, j) && no_nl(t, j + 1, n - 1);
            assert forall|i: int| p + 1 <= i < p + 1 + j implies s[i] != 0x0au8 by { assert(t[i - p - 1] == s[i]); }
            assert forall|i: int| p + 2 + j <= i < p + n implies s[i] != 0x0au8 by { assert(t[i - p - 1] == s[i]); }
            assert(s[p + 1 + j] == t[j] && s[p + n] == t[n - 1]);
            lemma_after_nl(s, p + 1, p + 1 + j);
            lemma_after_nl(s, p + 2 + j, p + n);
        } else {
            assert forall|i: int| p + 1 <= i < p + n implies s[i] != 0x0au8 by { assert(t[i - p - 1] == s[i]); }
            assert(s[p + n] == t[n - 1]);
            lemma_after_nl(s, p + 1, p + n);
        }
    }
}
pub proof fn lemma_op_of_byte_ref(op: OpcodeKind)
    ensures ref_op_of_byte(ref_code(op) as u8) == op
{
}

/// start offset of chunk i inside flat(chunks)
pub open spec fn offs(chunks: Seq<Seq<u8>>, i: int) -> int { flat(chunks.take(i)).len() as int }

pub proof fn lemma_flat_chunk_at(chunks: Seq<Seq<u8>>, i: int)
    requires 0 <= i < chunks.len()
    ensures
        offs(chunks, i) + chunks[i].len() == offs(chunks, i + 1),
        offs(chunks, i + 1) <= flat(chunks).len(),
        flat(chunks).subrange(offs(chunks, i), offs(chunks, i + 1)) == chunks[i],
    decreases chunks.len()
{
    let n = chunks.len() as int;
    let d = chunks.drop_last();
    assert(chunks.take(n) =~= chunks);
    if i == n - 1 {
        assert(chunks.take(i) =~= d);
        assert(flat(chunks).subrange(offs(chunks, i), offs(chunks, i + 1)) =~= chunks[i]);
    } else {
        lemma_flat_chunk_at(d, i);
        assert(chunks.take(i) =~= d.take(i));
        assert(chunks.take(i + 1) =~= d.take(i + 1));
        assert(d[i] == chunks[i]);
        assert(flat(chunks).subrange(offs(chunks, i), offs(chunks, i + 1)) =~= flat(d).subrange(offs(d, i), offs(d, i + 1)));
    }
}

/// FRAMING THEOREM: if the bytes of s from offset p on are the concatenation of chunks, each a
/// well-formed encoding of the opcode recorded for it, then a lexer started at p visits exactly the
/// chunk boundaries, reads exactly the recorded opcodes in order, and ends exactly at the end of s.
pub proof fn lemma_framing(s: Seq<u8>, p: int, chunks: Seq<Seq<u8>>, ops: Seq<OpcodeKind>)
    requires
        0 <= p <= s.len(),
        s.subrange(p, s.len() as int) == flat(chunks),
        chunks.len() == ops.len(),
        forall|i: int| 0 <= i < chunks.len() ==> enc_ok(#[trigger] ops[i], chunks[i]),
    ensures
        forall|i: int| 0 <= i < chunks.len() ==>
            ref_op_of_byte(s[p + offs(chunks, i)]) == #[trigger] ops[i]
            && lex_len(s, p + offs(chunks, i)) == chunks[i].len()
            && p + offs(chunks, i) + lex_len(s, p + offs(chunks, i)) == p + offs(chunks, i + 1),
        p + offs(chunks, chunks.len() as int) == s.len(),
{
    assert(chunks.take(chunks.len() as int) =~= chunks);
    assert(flat(chunks).len() == s.len() - p);
    assert forall|i: int| 0 <= i < chunks.len() implies
        ref_op_of_byte(s[p + offs(chunks, i)]) == #[trigger] ops[i]
        && lex_len(s, p + offs(chunks, i)) == chunks[i].len()
        && p + offs(chunks, i) + lex_len(s, p + offs(chunks, i)) == p + offs(chunks, i + 1) by {
        lemma_flat_chunk_at(chunks, i);
        let a = offs(chunks, i);
        let b = offs(chunks, i + 1);
        assert(s.subrange(p + a, p + b) =~= flat(chunks).subrange(a, b)) by {
            assert forall|k: int| 0 <= k < b - a implies s.subrange(p + a, p + b)[k] == flat(chunks).subrange(a, b)[k] by {
                assert(s.subrange(p, s.len() as int)[a + k] == s[p + a + k]);
            }
        }
        lemma_lex_one(s, p + a, ops[i], chunks[i]);
    }
}

pub open spec fn ops_of(t: Trace) -> Seq<OpcodeKind> { Seq::new(t.len(), |i: int| t[i].0) }
/// the collapse tail as one-byte chunks
pub open spec fn singles(t: Trace) -> Seq<Seq<u8>> { Seq::new(t.len(), |i: int| seq![ref_code(t[i].0) as u8]) }

pub proof fn lemma_flat_concat(a: Seq<Seq<u8>>, b: Seq<Seq<u8>>)
    ensures flat(a + b) == flat(a) + flat(b)
    decreases b.len()
{
    if b.len() == 0 {
        assert(a + b =~= a);
        assert(flat(a) + flat(b) =~= flat(a));
    } else {
        lemma_flat_concat(a, b.drop_last());
        assert((a + b).drop_last() =~= a + b.drop_last());
        assert((a + b).last() == b.last());
        assert(flat(a + b) =~= flat(a) + flat(b));
    }
}
pub proof fn lemma_flat_singles(t: Trace)
    ensures flat(singles(t)) == codes(t)
    decreases t.len()
{
    if t.len() == 0 {
        assert(singles(t) =~= Seq::<Seq<u8>>::empty());
    } else {
        lemma_flat_singles(t.drop_last());
        assert(singles(t).drop_last() =~= singles(t.drop_last()));
        assert(singles(t).last() == seq![ref_code(t.last().0) as u8]);
        assert(flat(singles(t)) =~= codes(t));
    }
}

/// concatenation of the per-opcode byte chunks of the body
pub open spec fn flat(c: Seq<Seq<u8>>) -> Seq<u8>
    decreases c.len()
{
    if c.len() == 0 { Seq::empty() } else { flat(c.drop_last()) + c.last() }
}
pub proof fn lemma_flat_push(c: Seq<Seq<u8>>, x: Seq<u8>)
    ensures flat(c.push(x)) == flat(c) + x
{
    assert(c.push(x).drop_last() =~= c);
}

/// no opcode grows the stack by more than one item or the memo by more than one entry
pub proof fn lemma_step_growth(op: OpcodeKind, a: RefArg, s: RefState)
    requires ref_pre(op, a, s), op != OpcodeKind::Stop
    ensures
        ref_step(op, a, s).stack.len() <= s.stack.len() + 1,
        ref_step(op, a, s).memo_len <= s.memo_len + 1,
        ref_step(op, a, s).memo_len >= s.memo_len,
{
    lemma_top_mark_props(s.stack);
}

pub open spec fn count_marks(s: Seq<Kind>) -> int
    decreases s.len()
{
    if s.len() == 0 { 0 } else { count_marks(s.drop_last()) + if s.last() == Kind::Mark { 1int } else { 0int } }
}

pub proof fn lemma_count_marks_bounds(s: Seq<Kind>)
    ensures 0 <= count_marks(s) <= s.len(), (count_marks(s) > 0) == (top_mark(s) >= 0)
    decreases s.len()
{
    if s.len() > 0 { lemma_count_marks_bounds(s.drop_last()); }
}

pub proof fn lemma_count_marks_push(s: Seq<Kind>, k: Kind)
    ensures count_marks(s.push(k)) == count_marks(s) + if k == Kind::Mark { 1int } else { 0int }
{
    assert(s.push(k).drop_last() =~= s);
}

pub proof fn lemma_count_marks_prefix(s: Seq<Kind>, j: int)
    requires 0 <= j <= s.len()
    ensures count_marks(s.subrange(0, j)) <= count_marks(s)
    decreases s.len()
{
    if j < s.len() {
        lemma_count_marks_prefix(s.drop_last(), j);
        assert(s.drop_last().subrange(0, j) =~= s.subrange(0, j));
    } else {
        assert(s.subrange(0, j) =~= s);
    }
}

/// cutting the stack at its topmost MARK removes exactly one MARK
pub proof fn lemma_count_marks_cut(s: Seq<Kind>)
    requires top_mark(s) >= 0
    ensures count_marks(s.subrange(0, top_mark(s))) == count_marks(s) - 1
    decreases s.len()
{
    lemma_top_mark_props(s);
    if s.last() == Kind::Mark {
        assert(s.subrange(0, top_mark(s)) =~= s.drop_last());
    } else {
        lemma_count_marks_cut(s.drop_last());
        assert(s.drop_last().subrange(0, top_mark(s)) =~= s.subrange(0, top_mark(s)));
    }
}

pub proof fn lemma_count_marks_shape(sim: Seq<Kind>, r: Seq<Kind>)
    requires shape_eq(sim, r)
    ensures count_marks(sim) == count_marks(r)
    decreases sim.len()
{
    if sim.len() > 0 {
        assert((sim.last() == Kind::Mark) == (r.last() == Kind::Mark));
        assert(shape_eq(sim.drop_last(), r.drop_last())) by {
            assert forall|i: int| 0 <= i < sim.drop_last().len() implies
                ((#[trigger] sim.drop_last()[i] == Kind::Mark) == (r.drop_last()[i] == Kind::Mark)) by {
                assert((sim[i] == Kind::Mark) == (r[i] == Kind::Mark));
            }
        }
        lemma_count_marks_shape(sim.drop_last(), r.drop_last());
    }
}

// ---------------------------------------------------------------------------------------------
// Relation between the generator's simulated kinds and the reference state (C17):
// same depth, same MARK positions, slot-by-slot compatible kinds; same memo index set.
pub open spec fn compat(sim: Kind, r: Kind) -> bool {
    (sim == Kind::Mark) == (r == Kind::Mark) && (r == Kind::Any || r == sim)
}

/// the two halves, so that a failure can be attributed: same depth and MARK positions (what the
/// stack discipline C01 needs) / compatible kinds (C03)
pub open spec fn shape_eq(sim: Seq<Kind>, r: Seq<Kind>) -> bool {
    sim.len() == r.len() && forall|i: int| 0 <= i < sim.len() ==> ((#[trigger] sim[i] == Kind::Mark) == (r[i] == Kind::Mark))
}
pub open spec fn kinds_ok(sim: Seq<Kind>, r: Seq<Kind>) -> bool {
    sim.len() == r.len() && forall|i: int| 0 <= i < sim.len() ==> (r[i] == Kind::Any || r[i] == #[trigger] sim[i])
}
pub open spec fn compat_stack(sim: Seq<Kind>, r: Seq<Kind>) -> bool {
    shape_eq(sim, r) && kinds_ok(sim, r)
}

// ---------------------------------------------------------------------------------------------
// Lemmas about the reference machine itself.
pub proof fn lemma_top_mark_props(s: Seq<Kind>)
    ensures
        -1 <= top_mark(s) < s.len(),
        top_mark(s) >= 0 ==> s[top_mark(s)] == Kind::Mark,
        forall|i: int| top_mark(s) < i < s.len() ==> s[i] != Kind::Mark,
    decreases s.len()
{
    if s.len() > 0 && s.last() != Kind::Mark {
        lemma_top_mark_props(s.drop_last());
        assert forall|i: int| top_mark(s) < i < s.len() implies s[i] != Kind::Mark by {
            if i < s.len() - 1 { assert(s.drop_last()[i] == s[i]); }
        }
    }
}

/// characterisation: t is the topmost MARK iff it is a MARK and nothing above it is
pub proof fn lemma_top_mark_unique(s: Seq<Kind>, t: int)
    requires
        -1 <= t < s.len(),
        t >= 0 ==> s[t] == Kind::Mark,
        forall|i: int| t < i < s.len() ==> s[i] != Kind::Mark,
    ensures top_mark(s) == t
{
    lemma_top_mark_props(s);
    let u = top_mark(s);
    if u > t { assert(s[u] == Kind::Mark); }
    if u < t { assert(s[t] == Kind::Mark); }
}

pub proof fn lemma_top_mark_compat(sim: Seq<Kind>, r: Seq<Kind>)
    requires compat_stack(sim, r)
    ensures top_mark(sim) == top_mark(r)
{
    lemma_top_mark_props(sim);
    let t = top_mark(sim);
    assert forall|i: int| t < i < r.len() implies r[i] != Kind::Mark by {
        assert((sim[i] == Kind::Mark) == (r[i] == Kind::Mark));
    }
    if t >= 0 { assert((sim[t] == Kind::Mark) == (r[t] == Kind::Mark)); }
    lemma_top_mark_unique(r, t);
}

pub proof fn lemma_no_mark_push(s: Seq<Kind>, k: Kind)
    ensures top_mark(s.push(k)) == (if k == Kind::Mark { s.len() as int } else { top_mark(s) })
{
    assert(s.push(k).drop_last() =~= s);
}

} // verus!
