// Shared prelude of the Verus units: real type definitions (extracted), reference tables + machine, trusted shim.
use vstd::prelude::*;
use std::collections::{HashMap, HashSet};

verus! {
global size_of usize == 8;
#[derive(Clone, Copy, PartialEq, Eq, Structural)]
//@item src/opcodes.rs enum OpcodeKind
#[derive(Clone, Copy, PartialEq, Eq, PartialOrd, Ord, Structural)]
//@item src/protocol.rs enum Version
} // verus!

//@include build/gen/ref_tables_verus.rs
//@include contracts/refmachine.rs

verus! {
//@item src/stack.rs struct InstanceObject
//@derives Clone
//@item src/stack.rs enum StackObject
//@derives Clone
//@item src/stack.rs struct Stack
//@derives Default
//@item src/state.rs struct State
//@derives Default
//@item src/generator/mod.rs struct Generator
//@field-type mutators VfMutators
#[verifier::external_body]
pub struct VfMutators { inner: usize }
pub struct VfError { pub code: u8 }
//@item src/mutators/mod.rs struct EmissionSnapshot
} // verus!

//@include contracts/shim.rs
