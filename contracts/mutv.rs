#![feature(allocator_api)]
#![allow(unused, non_snake_case, deprecated)]
// Unit "mutv": mutators verified in Verus (string / byte-string mutators, any length).
//@include-template contracts/prelude.tpl.rs

verus! {
// ---------------------------------------------------------------------------------------------------
// U8 in Verus: the string-valued mutators (CBMC cannot finish on String code); unbounded lengths.
pub struct StringLengthMutator;
pub struct CharacterMutator;

pub open spec fn is_prefix_of<T>(p: Seq<T>, v: Seq<T>) -> bool {
    p.len() <= v.len() && p =~= v.take(p.len() as int)
}
pub open spec fn lower_ascii(c: char) -> bool { 'a' <= c && c <= 'z' }

/// C16, string-length: a prefix of the input, the input followed by 1..9 extra items, or the input doubled
pub open spec fn stringlen_ok<T>(m: Seq<T>, v: Seq<T>) -> bool {
    is_prefix_of(m, v) || (is_prefix_of(v, m) && 1 <= m.len() - v.len() <= 9) || m =~= v + v
}

impl StringLengthMutator {
//@fn src/mutators/stringlen.rs StringLengthMutator::mutate_string
//@vis pub
//@ret r
//@props C15 C16 C04 C11 C17 C09
//@rewrite R16
//@subst value.is_empty() => vf_str_is_empty(&value)
//@subst source.gen_range(0, value.len()) => source.gen_range(0, vf_str_byte_len(&value))
//@subst value.chars().take(new_len).collect() => vf_str_take_chars(&value, new_len)
//@substall? value.clone() => vf_string_clone(&value)
//@substall? result.push((source.gen_u8() % 26 + b'a') as char) => vf_string_push(&mut result, (source.gen_u8() % 26 + 97u8) as char)
//@substall? result.push_str(&value) => vf_string_push_str(&mut result, &value)
//@contract
    ensures
        vf_rate_zero(rate) ==> r is None, // @C15
        vf_rate_one(rate) ==> r is Some, // @C15
        r is Some ==> stringlen_ok(r->Some_0@, value@), // @C16
        // what the emitters rely on (assumed there as the contract of Generator::mutate_string)
        r is Some ==> r->Some_0@.len() <= 2 * value@.len() + 9, // @C11 @C04
        r is Some && printable(value@) ==> printable(r->Some_0@), // @C04 @C17
//@loop 1
                    invariant
                        vf_i <= extra_len, 1 <= extra_len <= 9,
                        is_prefix_of(value@, result@), result@.len() == value@.len() + vf_i,
                        printable(value@) ==> printable(result@),
                    decreases extra_len - vf_i,
//@endfn

//@fn src/mutators/stringlen.rs StringLengthMutator::mutate_bytes
//@vis pub
//@ret r
//@props C15 C16 C04 C11 C17 C09
//@rewrite R16
//@subst value[..new_len].to_vec() => vf_prefix_to_vec(&value, new_len)
//@substall? value.clone() => vf_vec_clone(&value)
//@substall? result.extend(value) => vf_vec_extend(&mut result, value)
//@contract
    ensures
        vf_rate_zero(rate) ==> r is None, // @C15
        vf_rate_one(rate) ==> r is Some, // @C15
        r is Some ==> stringlen_ok(r->Some_0@, value@), // @C16
        r is Some ==> r->Some_0@.len() <= 2 * value@.len() + 9, // @C11 @C04
//@loop 1
                    invariant
                        vf_i <= extra_len, 1 <= extra_len <= 9,
                        is_prefix_of(value@, result@), result@.len() == value@.len() + vf_i,
                    decreases extra_len - vf_i,
//@endfn
}

impl CharacterMutator {
//@fn src/mutators/character.rs CharacterMutator::mutate_string
//@vis pub
//@ret r
//@props C15 C16 C04 C11 C17 C09
//@subst value.is_empty() => vf_str_is_empty(&value)
//@subst value.chars().collect() => vf_str_chars(&value)
//@subst chars.into_iter().collect() => vf_string_from_chars(chars)
//@contract
    ensures
        vf_rate_zero(rate) ==> r is None, // @C15
        vf_rate_one(rate) && value@.len() > 0 ==> r is Some, // @C15
        value@.len() == 0 ==> r is None, // @C16
        r is Some ==> r->Some_0@.len() == value@.len() && exists|i: int, c: char| 0 <= i < value@.len()
            && '!' <= c && c <= '~' && #[trigger] value@.update(i, c) == r->Some_0@, // @C16
        r is Some && printable(value@) ==> printable(r->Some_0@), // @C04 @C17
//@endfn
}

impl CharacterMutator {
//@fn src/mutators/character.rs CharacterMutator::mutate_bytes
//@vis pub
//@ret r
//@props C15 C16 C04 C11 C17 C09
//@substall? value.clone() => vf_vec_clone(&value)
//@contract
    ensures
        vf_rate_zero(rate) ==> r is None, // @C15
        vf_rate_one(rate) && value@.len() > 0 ==> r is Some, // @C15
        value@.len() == 0 ==> r is None, // @C16
        r is Some ==> r->Some_0@.len() == value@.len() && exists|i: int, c: u8| 0 <= i < value@.len()
            && #[trigger] value@.update(i, c) == r->Some_0@, // @C16
//@endfn
}

} // verus!
fn main() {}
