#![feature(allocator_api)]
#![allow(unused, non_snake_case, deprecated)]
// Unit "mutv": mutators verified in Verus (string / byte-string mutators, any length).
//@include-template contracts/prelude.tpl.rs

verus! {
// ---------------------------------------------------------------------------------------------------
// U8 in Verus: the string-valued mutators (CBMC cannot finish on String code); unbounded lengths.
pub struct StringLengthMutator;
pub struct CharacterMutator;

pub open spec fn is_prefix_of<T>(p: Seq<T>, v: Seq<T>) -> bool {
    p.len() <= v.len() && p =~= v.take(p.len() as int)
}
pub open spec fn lower_ascii(c: char) -> bool { 'a' <= c && c <= 'z' }

/// C16, string-length: a prefix of the input, the input followed by 1..9 extra items, or the input doubled
pub open spec fn stringlen_ok<T>(m: Seq<T>, v: Seq<T>) -> bool {
    is_prefix_of(m, v) || (is_prefix_of(v, m) && 1 <= m.len() - v.len() <= 9) || m =~= v + v
}

impl StringLengthMutator {
//@fn src/mutators/stringlen.rs StringLengthMutator::mutate_string
//@vis pub
//@ret r
//@props C15 C16 C04 C11 C17 C09
//@rewrite R16
//@subst value.is_empty() => vf_str_is_empty(&value)
//@subst source.gen_range(0, value.len()) => source.gen_range(0, vf_str_byte_len(&value))
//@subst value.chars().take(new_len).collect() => vf_str_take_chars(&value, new_len)
//@substall? value.clone() => vf_string_clone(&value)
//@substall? result.push((source.gen_u8() % 26 + b'a') as char) => vf_string_push(&mut result, (source.gen_u8() % 26 + 97u8) as char)
//@substall? result.push_str(&value) => vf_string_push_str(&mut result, &value)
//@contract
    ensures
        vf_rate_zero(rate) ==> r is None, // @C15
        vf_rate_one(rate) ==> r is Some, // @C15
        r is Some ==> stringlen_ok(r->Some_0@, value@), // @C16
        // what the emitters rely on (assumed there as the contract of Generator::mutate_string)
        r is Some ==> r->Some_0@.len() <= 2 * value@.len() + 9, // @C11 @C04
        r is Some && printable(value@) ==> printable(r->Some_0@), // @C04 @C17
//@loop 1
                    invariant
                        vf_i <= extra_len, 1 <= extra_len <= 9,
                        is_prefix_of(value@, result@), result@.len() == value@.len() + vf_i,
                        printable(value@) ==> printable(result@),
                    decreases extra_len - vf_i,
//@endfn

//@fn src/mutators/stringlen.rs StringLengthMutator::mutate_bytes
//@vis pub
//@ret r
//@props C15 C16 C04 C11 C17 C09
//@rewrite R16
//@subst value[..new_len].to_vec() => vf_prefix_to_vec(&value, new_len)
//@substall? value.clone() => vf_vec_clone(&value)
//@substall? result.extend(value) => vf_vec_extend(&mut result, value)
//@contract
    ensures
        vf_rate_zero(rate) ==> r is None, // @C15
        vf_rate_one(rate) ==> r is Some, // @C15
        r is Some ==> stringlen_ok(r->Some_0@, value@), // @C16
        r is Some ==> r->Some_0@.len() <= 2 * value@.len() + 9, // @C11 @C04
//@loop 1
                    invariant
                        vf_i <= extra_len, 1 <= extra_len <= 9,
                        is_prefix_of(value@, result@), result@.len() == value@.len() + vf_i,
                    decreases extra_len - vf_i,
//@endfn
}

impl CharacterMutator {
//@fn src/mutators/character.rs CharacterMutator::mutate_string
//@vis pub
//@ret r
//@props C15 C16 C04 C11 C17 C09
//@subst value.is_empty() => vf_str_is_empty(&value)
//@subst value.chars().collect() => vf_str_chars(&value)
//@subst chars.into_iter().collect() => vf_string_from_chars(chars)
//@contract
    ensures
        vf_rate_zero(rate) ==> r is None, // @C15
        vf_rate_one(rate) && value@.len() > 0 ==> r is Some, // @C15
        value@.len() == 0 ==> r is None, // @C16
        r is Some ==> r->Some_0@.len() == value@.len() && exists|i: int, c: char| 0 <= i < value@.len()
            && ' ' <= c && c <= '~' && #[trigger] value@.update(i, c) == r->Some_0@, // @C16 (printable = 0x20..0x7e; the code draws 0x21..0x7e)
        r is Some && printable(value@) ==> printable(r->Some_0@), // @C04 @C17
//@endfn
}

impl CharacterMutator {
//@fn src/mutators/character.rs CharacterMutator::mutate_bytes
//@vis pub
//@ret r
//@props C15 C16 C04 C11 C17 C09
//@substall? value.clone() => vf_vec_clone(&value)
//@contract
    ensures
        vf_rate_zero(rate) ==> r is None, // @C15
        vf_rate_one(rate) && value@.len() > 0 ==> r is Some, // @C15
        value@.len() == 0 ==> r is None, // @C16
        r is Some ==> r->Some_0@.len() == value@.len() && exists|i: int, c: u8| 0 <= i < value@.len()
            && #[trigger] value@.update(i, c) == r->Some_0@, // @C16
//@endfn
}

// ---------------------------------------------------------------------------------------------------
// TypeConfusionMutator (unsafe only): replaces a just-emitted value-pushing opcode by one complete
// value-pushing opcode of a different kind.
#[derive(Clone, Copy, PartialEq, Eq, Structural)]
//@item src/mutators/typeconfusion.rs enum StackType
//@item src/mutators/typeconfusion.rs struct TypeConfusionMutator

pub open spec fn class_num(t: StackType) -> int {
    match t {
        StackType::Int => 1, StackType::Float => 2, StackType::String => 3, StackType::Bytes => 4, StackType::List => 5,
        StackType::Tuple => 6, StackType::Dict => 7, StackType::None => 8, StackType::Bool => 9,
    }
}
impl OpcodeKind {
//@fn src/opcodes.rs OpcodeKind::as_u8
//@ret r
//@props C04 C16 C09
//@contract
    ensures r as int == ref_code(self), // @C04 @C16
//@endfn
}

#[verifier::external_body]
pub fn vf_confused_str() -> (r: VfText)
    ensures r.bytes().len() == 8
{ unimplemented!() }
#[verifier::external_body]
pub fn vf_confused_bytes() -> (r: VfText)
    ensures r.bytes().len() == 8
{ unimplemented!() }

impl TypeConfusionMutator {
//@fn src/mutators/typeconfusion.rs TypeConfusionMutator::opcode_to_type
//@vis pub
//@ret r
//@props C16 C09
//@contract
    ensures
        class_of(opcode_byte) == 0 ==> r is None, // @C16
        class_of(opcode_byte) != 0 ==> r is Some && class_num(r->Some_0) == class_of(opcode_byte), // @C16
//@endfn

//@fn src/mutators/typeconfusion.rs TypeConfusionMutator::choose_wrong_type
//@vis pub
//@ret r
//@props C16 C09
//@rewrite R15 StackType
//@subst Vec<_> => Vec<StackType>
//@contract
    ensures r != original, // @C16
//@loop 1
            invariant
                vf_i <= all_types@.len(), all_types@.len() == 9,
                all_types@[0] == StackType::Int && all_types@[1] == StackType::Float,
                forall|j: int| 0 <= j < vf_out@.len() ==> #[trigger] vf_out@[j] != original,
                vf_i >= 1 && original != StackType::Int ==> vf_out@.len() >= 1,
                vf_i >= 2 && original == StackType::Int ==> vf_out@.len() >= 1,
            decreases all_types@.len() - vf_i,
//@endfn

//@fn src/mutators/typeconfusion.rs TypeConfusionMutator::generate_opcode_for_type
//@vis pub
//@ret r
//@props C16 C04 C10 C09
//@subst source.gen_i32().to_le_bytes() => vf_i32_to_le_bytes(source.gen_i32())
//@subst source.gen_f64().to_be_bytes() => vf_f64_to_be_bytes(source.gen_f64())
//@subst let s = "confused"; => let s = vf_confused_str();
//@subst s.len() as u8 => s.as_bytes().len() as u8
//@subst let data = b"confused"; => let vf_data = vf_confused_bytes(); let data = vf_data.as_bytes();
//@contract
    ensures replacement_ok(r@, class_num(stack_type)), // @C16 @C04 @C10
//@endfn

//@fn src/mutators/typeconfusion.rs TypeConfusionMutator::post_process
//@vis pub
//@ret fired
//@props C15 C16 C04 C06 C10 C09
//@contract
    requires
        snapshot.output_len <= old(output)@.len(),
    ensures
        !self.unsafe_mode ==> !fired, // @C16
        vf_rate_zero(rate) ==> !fired, // @C15
        !fired ==> final(output)@ == old(output)@, // @C15 @C06
        vf_rate_one(rate) && self.unsafe_mode && snapshot.output_delta@.len() > 0 && class_of(snapshot.output_delta@[0]) != 0 ==> fired, // @C15
        fired ==> snapshot.output_delta@.len() > 0 && class_of(snapshot.output_delta@[0]) != 0, // @C16
        fired ==> exists|rep: Seq<u8>, k: int| final(output)@ == old(output)@.take(snapshot.output_len as int) + rep
            && #[trigger] replacement_ok(rep, k) && k != class_of(snapshot.output_delta@[0]), // @C16 @C04 @C06 @C10
//@endfn
}

} // verus!
fn main() {}
