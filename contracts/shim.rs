// TRUSTED shim (DESIGN.md 2.3): the opaque cell type and the assumed specifications of the std /
// crate functions Verus has no specification for.  Every `external_body`, `assume_specification`
// and `uninterp` item in the generated unit is listed in the evidence file by a mechanical scan.
verus! {

// ---- the cell model ---------------------------------------------------------------------------
// `StackObjectRef` (= Rc<RefCell<StackObject>> in /repo/src/stack.rs) is opaque.  Its only abstract
// attribute is the variant tag of the object it holds, which never changes after creation (every
// borrow_mut() site has the shape `if let StackObject::V(ref mut p) = *c.borrow_mut()`; checked
// mechanically by lint_borrow_mut on every run).
#[verifier::external_body]
#[verifier::reject_recursive_types_in_ground_variants]
pub struct StackObjectRef { inner: std::rc::Rc<std::cell::RefCell<StackObject>> }

impl StackObjectRef {
    pub uninterp spec fn kind(&self) -> Kind;

    #[verifier::external_body]
    pub fn new(obj: StackObject) -> (r: Self)
        ensures r.kind() == kind_of(obj)
    { unimplemented!() }

    #[verifier::external_body]
    pub fn borrow(&self) -> (r: &StackObject)
        ensures kind_of(*r) == self.kind()
    { unimplemented!() }

    // Used only in the shape `if let StackObject::V(ref mut p) = *c.borrow_mut() { <mutate p> }`.
    #[verifier::external_body]
    pub fn borrow_mut(&self) -> (r: &mut StackObject)
        ensures kind_of(*r) == self.kind()
    { unimplemented!() }
}

impl Clone for StackObjectRef {
    #[verifier::external_body]
    fn clone(&self) -> (r: Self)
        ensures r.kind() == self.kind()
    { unimplemented!() }
}

pub open spec fn kind_of(o: StackObject) -> Kind {
    match o {
        StackObject::Int(_) => Kind::Int,
        StackObject::Float(_) => Kind::Float,
        StackObject::Bool(_) => Kind::Bool,
        StackObject::None => Kind::None,
        StackObject::Bytes(_) => Kind::Bytes,
        StackObject::String(_) => Kind::String,
        StackObject::ByteArray(_) => Kind::ByteArray,
        StackObject::List(_) => Kind::List,
        StackObject::Tuple(_) => Kind::Tuple,
        StackObject::Dict(_) => Kind::Dict,
        StackObject::Set(_) => Kind::Set,
        StackObject::FrozenSet(_) => Kind::FrozenSet,
        StackObject::Mark => Kind::Mark,
        StackObject::Global { .. } => Kind::Global,
        StackObject::Instance(_) => Kind::Instance,
        StackObject::Callable(_) => Kind::Callable,
        StackObject::Extension(_) => Kind::Extension,
        StackObject::Any => Kind::Any,
    }
}

// `#[derive(Clone)]` of the real enum: the clone has the same variant
impl Clone for StackObject {
    #[verifier::external_body]
    fn clone(&self) -> (r: Self)
        ensures kind_of(r) == kind_of(*self)
    { unimplemented!() }
}

} // verus!
