// TRUSTED shim (DESIGN.md 2.3): the opaque cell type and the assumed specifications of the std /
// crate functions Verus has no specification for.  Every `external_body`, `assume_specification`
// and `uninterp` item in the generated unit is listed in the evidence file by a mechanical scan.
verus! {

// ---- the cell model ---------------------------------------------------------------------------
// `StackObjectRef` (= Rc<RefCell<StackObject>> in /repo/src/stack.rs) is opaque.  Its only abstract
// attribute is the variant tag of the object it holds, which never changes after creation (every
// borrow_mut() site has the shape `if let StackObject::V(ref mut p) = *c.borrow_mut()`; checked
// mechanically by lint_borrow_mut on every run).
#[verifier::external_body]
#[verifier::reject_recursive_types_in_ground_variants]
pub struct StackObjectRef { inner: std::rc::Rc<std::cell::RefCell<StackObject>> }

impl StackObjectRef {
    pub uninterp spec fn kind(&self) -> Kind;

    #[verifier::external_body]
    pub fn new(obj: StackObject) -> (r: Self)
        ensures r.kind() == kind_of(obj)
    { unimplemented!() }

    #[verifier::external_body]
    pub fn borrow(&self) -> (r: &StackObject)
        ensures kind_of(*r) == self.kind()
    { unimplemented!() }

    // Used only in the shape `if let StackObject::V(ref mut p) = *c.borrow_mut() { <mutate p> }`.
    #[verifier::external_body]
    pub fn borrow_mut(&self) -> (r: &mut StackObject)
        ensures kind_of(*r) == self.kind()
    { unimplemented!() }
}

impl Clone for StackObjectRef {
    #[verifier::external_body]
    fn clone(&self) -> (r: Self)
        ensures r.kind() == self.kind()
    { unimplemented!() }
}

pub open spec fn kind_of(o: StackObject) -> Kind {
    match o {
        StackObject::Int(_) => Kind::Int,
        StackObject::Float(_) => Kind::Float,
        StackObject::Bool(_) => Kind::Bool,
        StackObject::None => Kind::None,
        StackObject::Bytes(_) => Kind::Bytes,
        StackObject::String(_) => Kind::String,
        StackObject::ByteArray(_) => Kind::ByteArray,
        StackObject::List(_) => Kind::List,
        StackObject::Tuple(_) => Kind::Tuple,
        StackObject::Dict(_) => Kind::Dict,
        StackObject::Set(_) => Kind::Set,
        StackObject::FrozenSet(_) => Kind::FrozenSet,
        StackObject::Mark => Kind::Mark,
        StackObject::Global { .. } => Kind::Global,
        StackObject::Instance(_) => Kind::Instance,
        StackObject::Callable(_) => Kind::Callable,
        StackObject::Extension(_) => Kind::Extension,
        StackObject::Any => Kind::Any,
    }
}

// `#[derive(Clone)]` of the real enum: the clone has the same variant
impl Clone for StackObject {
    #[verifier::external_body]
    fn clone(&self) -> (r: Self)
        ensures kind_of(r) == kind_of(*self)
    { unimplemented!() }
}


// ---- payload computations (R4/R5/R6): text parsing and byte conversions ------------------------
// Results that only end up as payload *contents* are opaque.  Results that steer control flow or
// name a memo index have uninterpreted / vstd specs and are tied to the emitted bytes by the
// emitter contracts (Kani side).
pub uninterp spec fn vf_parse_index(b: Seq<u8>) -> Option<usize>;
pub uninterp spec fn vf_line_parts(b: Seq<u8>) -> int;

#[verifier::external_body]
pub fn vf_le_bytes_to_i64(b: &[u8]) -> (r: i64) { unimplemented!() }
#[verifier::external_body]
pub fn vf_parse_i64(b: &[u8]) -> (r: i64) { unimplemented!() }
#[verifier::external_body]
pub fn vf_parse_f64(b: &[u8]) -> (r: f64) { unimplemented!() }
/// from_utf8(b).ok().and_then(|s| s.trim().parse::<usize>().ok())
#[verifier::external_body]
pub fn vf_parse_usize(b: &[u8]) -> (r: Option<usize>)
    ensures r == vf_parse_index(b@)
{ unimplemented!() }
#[verifier::external_body]
pub fn vf_i32_from_le_bytes(b: [u8; 4]) -> (r: i32) { unimplemented!() }
#[verifier::external_body]
pub fn vf_u16_from_le_bytes(b: [u8; 2]) -> (r: u16) { unimplemented!() }
#[verifier::external_body]
pub fn vf_f64_from_be_bytes(b: [u8; 8]) -> (r: f64) { unimplemented!() }
#[verifier::external_body]
pub fn vf_u32_from_le_bytes(b: [u8; 4]) -> (r: u32)
    ensures r == vstd::bytes::spec_u32_from_le_bytes(seq![b@[0], b@[1], b@[2], b@[3]])
{ unimplemented!() }
#[verifier::external_body]
pub fn vf_to_vec(b: &[u8]) -> (r: Vec<u8>)
    ensures r@ == b@
{ unimplemented!() }

#[verifier::external_body]
pub struct VfCow { inner: usize }
#[verifier::external_body]
pub struct VfStr { inner: usize }
pub uninterp spec fn vf_cow_bytes(c: &VfCow) -> Seq<u8>;
#[verifier::external_body]
pub fn vf_from_utf8_lossy(b: &[u8]) -> (r: VfCow)
    ensures vf_cow_bytes(&r) == b@
{ unimplemented!() }
impl VfCow {
    #[verifier::external_body]
    pub fn into_owned(self) -> (r: String) { unimplemented!() }
}
/// `s.split('\n').collect::<Vec<&str>>()`
#[verifier::external_body]
pub fn vf_split_lines(s: &VfCow) -> (r: Vec<VfStr>)
    ensures r@.len() == vf_line_parts(vf_cow_bytes(s))
{ unimplemented!() }
impl VfStr {
    #[verifier::external_body]
    pub fn to_string(&self) -> (r: String) { unimplemented!() }
}

// ---- entropy source (U9: contracts proved by the Kani harnesses u9_*) ------------------------------
#[verifier::external_body]
pub struct GenerationSource { inner: usize }
impl GenerationSource {
    /// the value the next choose_index(max) call returns: a function of the source's state (both sources are
    /// deterministic streams); uninterpreted -- the contracts only use it to say WHICH alternative was taken
    pub uninterp spec fn draw_index(&self, max: usize) -> usize;
    /// the most recent gen_bool() result
    pub uninterp spec fn last_bool(&self) -> bool;
    #[verifier::external_body]
    pub fn choose_index(&mut self, max: usize) -> (r: usize)
        ensures max > 0 ==> r < max, max == 0 ==> r == 0, r == old(self).draw_index(max)
    { unimplemented!() }
    /// the value the next gen_range(min, max) call returns (same role as draw_index)
    pub uninterp spec fn draw_range(&self, min: usize, max: usize) -> usize;
    #[verifier::external_body]
    pub fn gen_range(&mut self, min: usize, max: usize) -> (r: usize)
        ensures min < max ==> min <= r < max, min >= max ==> r == min, r == old(self).draw_range(min, max)
    { unimplemented!() }
    #[verifier::external_body]
    pub fn gen_bool(&mut self) -> (r: bool) ensures r == final(self).last_bool() { unimplemented!() }
    #[verifier::external_body]
    pub fn gen_u8(&mut self) -> (r: u8) { unimplemented!() }
    #[verifier::external_body]
    pub fn gen_u16(&mut self) -> (r: u16) { unimplemented!() }
    #[verifier::external_body]
    pub fn gen_u32(&mut self) -> (r: u32) { unimplemented!() }
    #[verifier::external_body]
    pub fn gen_i32(&mut self) -> (r: i32) { unimplemented!() }
    #[verifier::external_body]
    pub fn gen_f64(&mut self) -> (r: f64) { unimplemented!() }
}

// ---- post-emission rewrite (type confusion): shared between units core and mutv -------------------
/// kind class of a value-pushing opcode byte per the statement of C16 (0 = not value pushing);
/// hand-written from the opcode table, not from typeconfusion.rs
pub open spec fn class_of(b: u8) -> int {
    if b == 0x49 || b == 0x4a || b == 0x4b || b == 0x4d || b == 0x4c || b == 0x8a || b == 0x8b { 1 }
    else if b == 0x46 || b == 0x47 { 2 }
    else if b == 0x53 || b == 0x56 || b == 0x8c || b == 0x58 || b == 0x8d { 3 }
    else if b == 0x42 || b == 0x43 || b == 0x8e || b == 0x54 || b == 0x55 { 4 }
    else if b == 0x5d || b == 0x6c { 5 }
    else if b == 0x29 || b == 0x74 || b == 0x85 || b == 0x86 || b == 0x87 { 6 }
    else if b == 0x7d || b == 0x64 { 7 }
    else if b == 0x4e { 8 }
    else if b == 0x88 || b == 0x89 { 9 }
    else { 0 }
}
/// one complete value-pushing opcode of class k (classes never contain EXT / buffer / FRAME opcodes)
pub open spec fn replacement_ok(rep: Seq<u8>, k: int) -> bool {
    k != 0 && rep.len() >= 1 && class_of(rep[0]) == k && enc_ok(ref_op_of_byte(rep[0]), rep)
}

/// a chunk that is exactly one well-formed opcode (identified by its first byte)
pub open spec fn one_opcode(c: Seq<u8>) -> bool {
    c.len() >= 1 && ref_code(ref_op_of_byte(c[0])) == c[0] && enc_ok(ref_op_of_byte(c[0]), c)
}
pub proof fn lemma_op_of_byte(op: OpcodeKind)
    ensures ref_op_of_byte(ref_code(op) as u8) == op
{
}
pub proof fn lemma_class_is_value_pusher(b: u8)
    requires class_of(b) != 0
    ensures
        ref_code(ref_op_of_byte(b)) == b,
        ref_op_of_byte(b) != OpcodeKind::Ext1 && ref_op_of_byte(b) != OpcodeKind::Ext2 && ref_op_of_byte(b) != OpcodeKind::Ext4,
        ref_op_of_byte(b) != OpcodeKind::NextBuffer && ref_op_of_byte(b) != OpcodeKind::ReadOnlyBuffer,
        ref_op_of_byte(b) != OpcodeKind::Frame && ref_op_of_byte(b) != OpcodeKind::Stop && ref_op_of_byte(b) != OpcodeKind::Proto,
{
}

// ---- mutation gate and string payload operations (U8 in Verus) ------------------------------------
/// f64 rate extremes as uninterpreted predicates (Verus has no float arithmetic); the contract of
/// should_mutate over them is the one proved by the Kani harnesses u8_*_{arb,rand} ([C15] clauses).
pub uninterp spec fn vf_rate_zero(rate: f64) -> bool;
pub uninterp spec fn vf_rate_one(rate: f64) -> bool;
#[verifier::external_body]
pub fn should_mutate(source: &mut GenerationSource, rate: f64) -> (r: bool)
    ensures vf_rate_zero(rate) ==> !r, vf_rate_one(rate) ==> r
{ unimplemented!() }

/// String operations on payload text: the view of a String is its sequence of chars
#[verifier::external_body]
pub fn vf_str_is_empty(s: &String) -> (r: bool)
    ensures r == (s@.len() == 0)
{ unimplemented!() }
/// `s.len()` (length in bytes): at least the number of chars, 0 iff empty
#[verifier::external_body]
pub fn vf_str_byte_len(s: &String) -> (r: usize)
    ensures r >= s@.len(), (r == 0) == (s@.len() == 0)
{ unimplemented!() }
/// `s.chars().take(n).collect::<String>()`
#[verifier::external_body]
pub fn vf_str_take_chars(s: &String, n: usize) -> (r: String)
    ensures r@ == s@.take(if n <= s@.len() { n as int } else { s@.len() as int })
{ unimplemented!() }
/// `s.chars().collect::<Vec<char>>()`
#[verifier::external_body]
pub fn vf_str_chars(s: &String) -> (r: Vec<char>)
    ensures r@ == s@
{ unimplemented!() }
/// `chars.into_iter().collect::<String>()`
#[verifier::external_body]
pub fn vf_string_from_chars(chars: Vec<char>) -> (r: String)
    ensures r@ == chars@
{ unimplemented!() }
#[verifier::external_body]
pub fn vf_string_clone(s: &String) -> (r: String)
    ensures r@ == s@
{ unimplemented!() }
#[verifier::external_body]
pub fn vf_string_push(s: &mut String, c: char)
    ensures final(s)@ == old(s)@.push(c)
{ unimplemented!() }
#[verifier::external_body]
pub fn vf_string_push_str(s: &mut String, t: &String)
    ensures final(s)@ == old(s)@ + t@
{ unimplemented!() }
/// every char is printable ASCII 0x20..=0x7e (what gen_ascii_char yields and every string mutator preserves)
pub open spec fn printable(s: Seq<char>) -> bool {
    forall|i: int| 0 <= i < s.len() ==> ' ' <= #[trigger] s[i] && s[i] <= '~'
}
/// `(0..len).map(|_| source.gen_ascii_char()).collect::<String>()`
#[verifier::external_body]
pub fn vf_gen_ascii_string(source: &mut GenerationSource, len: usize) -> (r: String)
    ensures r@.len() == len, printable(r@)
{ unimplemented!() }
/// `s.into_bytes()`: one byte per char for ASCII text
#[verifier::external_body]
pub fn vf_string_into_bytes(s: String) -> (r: Vec<u8>)
    ensures printable(s@) ==> r@.len() == s@.len()
{ unimplemented!() }
/// the STRING escaping chain `s.replace('\\', ..).replace('\'', ..).replace('\n', ..).replace('\r', ..).replace('\t', ..)`
#[verifier::external_body]
pub fn vf_escape_py(s: &String) -> (r: String)
    ensures printable(s@) ==> printable(r@)
{ unimplemented!() }
/// `format!("'{}'\n", escaped).into_bytes()`-able text: a quoted, escaped Python string literal line
#[verifier::external_body]
pub fn vf_fmt_quoted_nl(escaped: &String) -> (r: VfText)
    ensures r.bytes().len() >= 3, printable(escaped@) ==> text_ok(ArgClass::StringNl, r.bytes())
{ unimplemented!() }
/// `s.replace('\\', "\\\\")`
#[verifier::external_body]
pub fn vf_escape_backslash(s: &String) -> (r: String)
    ensures printable(s@) ==> printable(r@)
{ unimplemented!() }
/// `format!("{}\n", escaped)`: a line that contains no other newline when the text is printable
#[verifier::external_body]
pub fn vf_fmt_line_nl(escaped: &String) -> (r: VfText)
    ensures r.bytes().len() >= 1, printable(escaped@) ==> text_ok(ArgClass::UnicodeNl, r.bytes())
{ unimplemented!() }
/// `(0..len).map(|_| source.gen_u8()).collect::<Vec<u8>>()`
#[verifier::external_body]
pub fn vf_gen_u8_vec(source: &mut GenerationSource, len: usize) -> (r: Vec<u8>)
    ensures r@.len() == len
{ unimplemented!() }
#[verifier::external_body]
pub fn vf_i32_to_le_bytes(x: i32) -> (r: [u8; 4])
    ensures vstd::bytes::spec_u32_from_le_bytes(seq![r@[0], r@[1], r@[2], r@[3]]) == x as u32
{ unimplemented!() }
#[verifier::external_body]
pub fn vf_u64_to_le_bytes(x: u64) -> (r: [u8; 8])
    ensures vstd::bytes::spec_u64_from_le_bytes(seq![r@[0], r@[1], r@[2], r@[3], r@[4], r@[5], r@[6], r@[7]]) == x
{ unimplemented!() }
/// `v[..n].to_vec()`
#[verifier::external_body]
pub fn vf_prefix_to_vec(v: &Vec<u8>, n: usize) -> (r: Vec<u8>)
    requires n <= v@.len()
    ensures r@ == v@.take(n as int)
{ unimplemented!() }
/// `a.extend(b)` for Vec<u8>
#[verifier::external_body]
pub fn vf_vec_extend(a: &mut Vec<u8>, b: Vec<u8>)
    ensures final(a)@ == old(a)@ + b@
{ unimplemented!() }
#[verifier::external_body]
pub fn vf_vec_clone(a: &Vec<u8>) -> (r: Vec<u8>)
    ensures r@ == a@
{ unimplemented!() }

// ---- the registered mutators (Vec<Box<dyn Mutator>>) behind an opaque list ---------------------------
// Trait-level contract of one registered mutator: the weakest contract that every built-in mutator
// satisfies (proved per mutator in unit mutv / by the Kani harnesses u8_*; methods a mutator does not
// implement return None / false by the trait's default bodies).
#[verifier::external_body]
pub struct VfMutator { inner: usize }
pub uninterp spec fn vf_mutators_len_spec(m: &VfMutators) -> nat;
pub uninterp spec fn vf_mutator_spec(m: &VfMutators, i: int) -> VfMutator;
#[verifier::external_body]
pub fn vf_mutators_empty() -> (r: VfMutators)
    ensures vf_mutators_len_spec(&r) == 0
{ unimplemented!() }
#[verifier::external_body]
pub fn vf_mutators_push(m: &mut VfMutators, x: VfMutator)
    ensures vf_mutators_len_spec(final(m)) == vf_mutators_len_spec(old(m)) + 1,
        forall|i: int| 0 <= i < vf_mutators_len_spec(old(m)) ==> vf_mutator_spec(final(m), i) == vf_mutator_spec(old(m), i),
        vf_mutator_spec(final(m), vf_mutators_len_spec(old(m)) as int) == x,
{ unimplemented!() }
/// compiler-derived `Default` impls (#[derive(Default)] on Stack and State; the templates require the derives)
#[verifier::external_body]
pub fn vf_stack_default() -> (r: Stack)
    ensures r.inner@.len() == 0
{ unimplemented!() }
#[verifier::external_body]
pub fn vf_state_default() -> (r: State)
    ensures !r.proto_emitted, r.stack.inner@.len() == 0, r.memo@ == Map::<usize, StackObjectRef>::empty()
{ unimplemented!() }
/// f64::clamp(0.0, 1.0): no float arithmetic in Verus; only the extremes are stated (1.0 stays 1.0, 0.0 stays 0.0)
#[verifier::external_body]
pub fn vf_clamp01(rate: f64) -> (r: f64)
    ensures vf_rate_one(rate) ==> vf_rate_one(r), vf_rate_zero(rate) ==> vf_rate_zero(r)
{ unimplemented!() }
#[verifier::external_body]
pub fn vf_mutators_is_empty(m: &VfMutators) -> (r: bool)
    ensures r == (vf_mutators_len_spec(m) == 0)
{ unimplemented!() }
#[verifier::external_body]
pub fn vf_mutators_len(m: &VfMutators) -> (r: usize)
    ensures r == vf_mutators_len_spec(m)
{ unimplemented!() }
#[verifier::external_body]
pub fn vf_mutator_at(m: &VfMutators, i: usize) -> (r: &VfMutator)
    requires i < vf_mutators_len_spec(m)
    ensures *r == vf_mutator_spec(m, i as int)
{ unimplemented!() }
impl VfMutator {
    /// the unsafe_mode the mutator was created with (MutatorKind::create(unsafe_mode))
    pub uninterp spec fn unsafe_mode(&self) -> bool;
    /// Mutator::is_unsafe() / Mutator::name(): pure observers.  Stated so that a dispatcher consulting them stays within the
    /// verifier's reach (and is then held to the first-wins specification like any other dispatcher body)
    pub uninterp spec fn is_unsafe_spec(&self) -> bool;
    #[verifier::external_body]
    pub fn is_unsafe(&self) -> (r: bool)
        ensures r == self.is_unsafe_spec()
    { unimplemented!() }
    #[verifier::external_body]
    pub fn name(&self) -> (r: &'static str)
    { unimplemented!() }
    // One mutator call is a deterministic function of (mutator, value, entropy state, rate): what it returns and the
    // entropy state it leaves behind.  Uninterpreted: the dispatchers of src/generator/mutation.rs are specified
    // against these functions ("the first registered mutator that fires decides the value", C15), nothing is
    // claimed here about WHAT a mutator returns (that is C16: unit mutv and the Kani harnesses u8_*).
    pub uninterp spec fn sp_int(&self, v: i32, s: GenerationSource, rate: f64) -> Option<i32>;
    pub uninterp spec fn sp_int_src(&self, v: i32, s: GenerationSource, rate: f64) -> GenerationSource;
    pub uninterp spec fn sp_float(&self, v: f64, s: GenerationSource, rate: f64) -> Option<f64>;
    pub uninterp spec fn sp_float_src(&self, v: f64, s: GenerationSource, rate: f64) -> GenerationSource;
    pub uninterp spec fn sp_memo(&self, v: usize, s: GenerationSource, rate: f64) -> Option<usize>;
    pub uninterp spec fn sp_memo_src(&self, v: usize, s: GenerationSource, rate: f64) -> GenerationSource;
    pub uninterp spec fn sp_str(&self, v: Seq<char>, s: GenerationSource, rate: f64) -> Option<Seq<char>>;
    pub uninterp spec fn sp_str_src(&self, v: Seq<char>, s: GenerationSource, rate: f64) -> GenerationSource;
    pub uninterp spec fn sp_bytes(&self, v: Seq<u8>, s: GenerationSource, rate: f64) -> Option<Seq<u8>>;
    pub uninterp spec fn sp_bytes_src(&self, v: Seq<u8>, s: GenerationSource, rate: f64) -> GenerationSource;
    #[verifier::external_body]
    pub fn mutate_int(&self, value: i32, source: &mut GenerationSource, rate: f64) -> (r: Option<i32>)
        ensures r == self.sp_int(value, *old(source), rate), *final(source) == self.sp_int_src(value, *old(source), rate)
    { unimplemented!() }
    #[verifier::external_body]
    pub fn mutate_long(&self, value: i64, source: &mut GenerationSource, rate: f64) -> (r: Option<i64>) { unimplemented!() }
    #[verifier::external_body]
    pub fn mutate_float(&self, value: f64, source: &mut GenerationSource, rate: f64) -> (r: Option<f64>)
        ensures r == self.sp_float(value, *old(source), rate), *final(source) == self.sp_float_src(value, *old(source), rate)
    { unimplemented!() }
    #[verifier::external_body]
    pub fn mutate_memo_index(&self, index: usize, source: &mut GenerationSource, rate: f64) -> (r: Option<usize>)
        ensures r == self.sp_memo(index, *old(source), rate), *final(source) == self.sp_memo_src(index, *old(source), rate)
    { unimplemented!() }
    #[verifier::external_body]
    pub fn mutate_string(&self, value: String, source: &mut GenerationSource, rate: f64) -> (r: Option<String>)
        ensures r is Some ==> r->Some_0@.len() <= 2 * value@.len() + 9 && (printable(value@) ==> printable(r->Some_0@)),
            (r is Some) == (self.sp_str(value@, *old(source), rate) is Some),
            r is Some ==> r->Some_0@ == self.sp_str(value@, *old(source), rate)->Some_0,
            *final(source) == self.sp_str_src(value@, *old(source), rate),
    { unimplemented!() }
    #[verifier::external_body]
    pub fn mutate_bytes(&self, value: Vec<u8>, source: &mut GenerationSource, rate: f64) -> (r: Option<Vec<u8>>)
        ensures r is Some ==> r->Some_0@.len() <= 2 * value@.len() + 9,
            (r is Some) == (self.sp_bytes(value@, *old(source), rate) is Some),
            r is Some ==> r->Some_0@ == self.sp_bytes(value@, *old(source), rate)->Some_0,
            *final(source) == self.sp_bytes_src(value@, *old(source), rate),
    { unimplemented!() }
    /// only TypeConfusionMutator overrides post_process (contract proved in unit mutv); the default body returns false
    #[verifier::external_body]
    pub fn post_process(&self, snapshot: &EmissionSnapshot, output: &mut Vec<u8>, source: &mut GenerationSource, rate: f64) -> (fired: bool)
        requires snapshot.output_len <= old(output)@.len()
        ensures
            !self.unsafe_mode() ==> final(output)@ == old(output)@,
            final(output)@ == old(output)@
                || exists|rep: Seq<u8>, k: int| final(output)@ == old(output)@.take(snapshot.output_len as int) + rep && #[trigger] replacement_ok(rep, k),
    { unimplemented!() }
}
/// `v[n..].to_vec()`
#[verifier::external_body]
pub fn vf_bytes_tail(v: &Vec<u8>, n: usize) -> (r: Vec<u8>)
    requires n <= v@.len()
    ensures r@ == v@.skip(n as int)
{ unimplemented!() }
#[verifier::external_body]
pub fn vf_stack_tail(v: &Vec<StackObjectRef>, n: usize) -> (r: Vec<StackObjectRef>)
    requires n <= v@.len()
{ unimplemented!() }

// ---- where the entropy of a generation call comes from (C07 / C08) -----------------------------------
pub enum VfOrigin { Seed(u64), OsRandom, Bytes(Seq<u8>) }
#[verifier::external_body]
pub struct VfRng { inner: usize }
#[verifier::external_body]
pub struct VfUnstructured { inner: usize }
impl VfRng { pub uninterp spec fn origin(&self) -> VfOrigin; }
impl VfUnstructured { pub uninterp spec fn data(&self) -> Seq<u8>; }
impl GenerationSource { pub uninterp spec fn origin(&self) -> VfOrigin; }
/// ChaCha8Rng::seed_from_u64(seed): the stream is a function of the seed alone
#[verifier::external_body]
pub fn vf_rng_seed_from_u64(seed: u64) -> (r: VfRng)
    ensures r.origin() == VfOrigin::Seed(seed)
{ unimplemented!() }
/// ChaCha8Rng::from_os_rng()
#[verifier::external_body]
pub fn vf_rng_from_os() -> (r: VfRng)
    ensures r.origin() == VfOrigin::OsRandom
{ unimplemented!() }
/// GenerationSource::Rand(&mut rng)
#[verifier::external_body]
pub fn vf_source_rand(rng: &mut VfRng) -> (r: GenerationSource)
    ensures r.origin() == old(rng).origin()
{ unimplemented!() }
/// Unstructured::new(data) / GenerationSource::Arbitrary(&mut u)
#[verifier::external_body]
pub fn vf_unstructured_new(data: &[u8]) -> (r: VfUnstructured)
    ensures r.data() == data@
{ unimplemented!() }
#[verifier::external_body]
pub fn vf_source_arbitrary(u: &mut VfUnstructured) -> (r: GenerationSource)
    ensures r.origin() == VfOrigin::Bytes(old(u).data())
{ unimplemented!() }

// ---- text formatting (R6): opaque text values with the decimal round-trip assumption -----------------
#[verifier::external_body]
pub struct VfText { inner: usize }
impl VfText {
    pub uninterp spec fn bytes(&self) -> Seq<u8>;
    #[verifier::external_body]
    pub fn as_bytes(&self) -> (r: &[u8])
        ensures r@ == self.bytes()
    { unimplemented!() }
    #[verifier::external_body]
    pub fn into_bytes(self) -> (r: Vec<u8>)
        ensures r@ == self.bytes()
    { unimplemented!() }
}
/// format!("{}\n", n) for n: usize -- assumed: non-empty, and from_utf8(..).trim().parse::<usize>() gives n back
#[verifier::external_body]
pub fn vf_fmt_usize_nl(n: usize) -> (r: VfText)
    ensures vf_parse_index(r.bytes()) == Some(n), r.bytes().len() >= 2, text_ok(ArgClass::DecNl, r.bytes())
{ unimplemented!() }
/// format!("{}\n", x) for x: f64
#[verifier::external_body]
pub fn vf_fmt_f64_nl(x: f64) -> (r: VfText)
    ensures r.bytes().len() >= 2, text_ok(ArgClass::FloatNl, r.bytes())
{ unimplemented!() }
/// format!("pid_{}\n", n)
#[verifier::external_body]
pub fn vf_fmt_pid_nl(n: u32) -> (r: VfText)
    ensures r.bytes().len() >= 6, text_ok(ArgClass::LineNl, r.bytes())
{ unimplemented!() }

#[verifier::external_body]
pub fn vf_f64_to_be_bytes(x: f64) -> (r: [u8; 8]) { unimplemented!() }
#[verifier::external_body]
pub fn vf_u32_to_le_bytes(x: u32) -> (r: [u8; 4])
    ensures vstd::bytes::spec_u32_from_le_bytes(seq![r@[0], r@[1], r@[2], r@[3]]) == x
{ unimplemented!() }
#[verifier::external_body]
pub fn vf_u16_to_le_bytes(x: u16) -> (r: [u8; 2])
    ensures r@[0] as int + 256 * (r@[1] as int) == x
{ unimplemented!() }
// integer helpers the real code does not use today but a maintainer plausibly would (vstd already specifies
// saturating_*, checked_*, wrapping_*, min, max); stated so such a rewrite stays within the verifier's reach
pub assume_specification[ usize::abs_diff ](x: usize, y: usize) -> (r: usize)
    ensures r as int == if x >= y { x - y } else { y - x };
// capacity of a collection: any value not below its length (it survives clear(): a decision made on it
// would depend on the generator's history, which is exactly what such a spec lets the verifier see)
pub assume_specification<K, V, S, A: std::alloc::Allocator>[ HashMap::<K, V, S, A>::capacity ](m: &HashMap<K, V, S, A>) -> (r: usize)
    ensures r >= m@.len();
pub assume_specification<T, A: std::alloc::Allocator>[ Vec::<T, A>::capacity ](v: &Vec<T, A>) -> (r: usize)
    ensures r >= v@.len();
// conversions through the generic `From` trait that Verus accepts WITHOUT any postcondition (unlike the integer
// widenings, which vstd specifies): stated here so that a rewrite using them stays provable
pub assume_specification[<char as From<u8>>::from](x: u8) -> (c: char) ensures c as u32 == x as u32;
pub assume_specification[<u32 as From<char>>::from](c: char) -> (x: u32) ensures x == c as u32;
pub assume_specification[<u8 as From<bool>>::from](b: bool) -> (x: u8) ensures x == (if b { 1u8 } else { 0u8 });
pub assume_specification[<u32 as From<bool>>::from](b: bool) -> (x: u32) ensures x == (if b { 1u32 } else { 0u32 });
pub assume_specification[<usize as From<bool>>::from](b: bool) -> (x: usize) ensures x == (if b { 1usize } else { 0usize });
pub assume_specification[<u64 as From<bool>>::from](b: bool) -> (x: u64) ensures x == (if b { 1u64 } else { 0u64 });
pub assume_specification[<i32 as From<bool>>::from](b: bool) -> (x: i32) ensures x == (if b { 1i32 } else { 0i32 });
pub assume_specification[ u32::abs_diff ](x: u32, y: u32) -> (r: u32)
    ensures r as int == if x >= y { x - y } else { y - x };

#[verifier::external_body]
pub fn vf_unreachable()
    requires false
{ unimplemented!() }

// ---- memo key enumeration: HashMap iteration order is arbitrary (C07) ------------------------------
/// `m.keys().copied().collect::<Vec<_>>()`: SOME enumeration of the key set, each key once
#[verifier::external_body]
pub fn vf_keys(m: &HashMap<usize, StackObjectRef>) -> (r: Vec<usize>)
    ensures
        r@.no_duplicates(),
        r@.len() == m@.len(),
        forall|k: usize| r@.contains(k) <==> m@.dom().contains(k),
{ unimplemented!() }
/// `m.keys().filter(|&&k| k < bound).copied().collect::<Vec<_>>()`
#[verifier::external_body]
pub fn vf_keys_below(m: &HashMap<usize, StackObjectRef>, bound: usize) -> (r: Vec<usize>)
    ensures
        r@.no_duplicates(),
        forall|k: usize| r@.contains(k) <==> (m@.dom().contains(k) && k < bound),
{ unimplemented!() }
/// C07: the canonical enumeration of a key set -- the unique ascending duplicate-free sequence with
/// exactly these elements.  Whatever order the hash map yields its keys in, the sorted vector is this.
pub open spec fn is_canon(s: Seq<usize>, dom: Set<usize>) -> bool {
    sorted_asc(s) && forall|k: usize| s.contains(k) <==> dom.contains(k)
}
pub proof fn lemma_canon_unique(a: Seq<usize>, b: Seq<usize>, dom: Set<usize>)
    requires is_canon(a, dom), is_canon(b, dom)
    ensures a =~= b
    decreases a.len()
{
    if a.len() == 0 {
        if b.len() > 0 { assert(b.contains(b[0])); assert(a.contains(b[0])); }
    } else if b.len() == 0 {
        assert(a.contains(a[0])); assert(b.contains(a[0]));
    } else {
        // the largest element is last in both
        let la = a.last(); let lb = b.last();
        assert(a.contains(la)); assert(b.contains(lb));
        assert(b.contains(la)); assert(a.contains(lb));
        let i = choose|i: int| 0 <= i < b.len() && b[i] == la;
        let j = choose|j: int| 0 <= j < a.len() && a[j] == lb;
        assert(la <= lb) by { if i < b.len() - 1 { assert(b[i] < b[b.len() - 1]); } }
        assert(lb <= la) by { if j < a.len() - 1 { assert(a[j] < a[a.len() - 1]); } }
        let dom2 = dom.remove(la);
        let a2 = a.drop_last(); let b2 = b.drop_last();
        assert(is_canon(a2, dom2)) by {
            assert forall|k: usize| a2.contains(k) <==> dom2.contains(k) by {
                if a2.contains(k) {
                    let t = choose|t: int| 0 <= t < a2.len() && a2[t] == k;
                    assert(a[t] == k); assert(a[t] < a[a.len() - 1]); assert(a.contains(k));
                }
                if dom2.contains(k) {
                    assert(a.contains(k));
                    let t = choose|t: int| 0 <= t < a.len() && a[t] == k;
                    assert(t < a.len() - 1); assert(a2[t] == k);
                }
            }
        }
        assert(is_canon(b2, dom2)) by {
            assert forall|k: usize| b2.contains(k) <==> dom2.contains(k) by {
                if b2.contains(k) {
                    let t = choose|t: int| 0 <= t < b2.len() && b2[t] == k;
                    assert(b[t] == k); assert(b[t] < b[b.len() - 1]); assert(b.contains(k));
                }
                if dom2.contains(k) {
                    assert(b.contains(k));
                    let t = choose|t: int| 0 <= t < b.len() && b[t] == k;
                    assert(t < b.len() - 1); assert(b2[t] == k);
                }
            }
        }
        lemma_canon_unique(a2, b2, dom2);
        assert(a =~= a2.push(la)); assert(b =~= b2.push(lb));
    }
}
pub open spec fn canon(dom: Set<usize>) -> Seq<usize> {
    choose|s: Seq<usize>| is_canon(s, dom)
}

pub open spec fn sorted_asc(s: Seq<usize>) -> bool {
    forall|i: int, j: int| 0 <= i < j < s.len() ==> s[i] < s[j]
}
/// `v.sort_unstable()` on a duplicate-free vector: ascending permutation
#[verifier::external_body]
pub fn vf_sort_unstable(v: &mut Vec<usize>)
    requires old(v)@.no_duplicates()
    ensures
        sorted_asc(final(v)@),
        final(v)@.len() == old(v)@.len(),
        forall|k: usize| final(v)@.contains(k) <==> old(v)@.contains(k),
{ unimplemented!() }

pub open spec fn ver_num(v: Version) -> int {
    match v { Version::V0 => 0, Version::V1 => 1, Version::V2 => 2, Version::V3 => 3, Version::V4 => 4, Version::V5 => 5 }
}
/// derived PartialOrd of the fieldless enum Version: declaration order
#[verifier::external_body]
pub fn vf_version_ge(a: Version, b: Version) -> (r: bool)
    ensures r == (ver_num(a) >= ver_num(b))
{ unimplemented!() }

#[verifier::external_body]
pub fn vf_version_gt(a: Version, b: Version) -> (r: bool)
    ensures r == (ver_num(a) > ver_num(b))
{ unimplemented!() }
#[verifier::external_body]
pub fn vf_version_le(a: Version, b: Version) -> (r: bool)
    ensures r == (ver_num(a) <= ver_num(b))
{ unimplemented!() }
#[verifier::external_body]
pub fn vf_version_lt(a: Version, b: Version) -> (r: bool)
    ensures r == (ver_num(a) < ver_num(b))
{ unimplemented!() }
/// `version as u8` of the fieldless enum: declaration order
#[verifier::external_body]
pub fn vf_version_u8(v: Version) -> (r: u8)
    ensures r as int == ver_num(v)
{ unimplemented!() }

/// `a.checked_sub(b).ok_or_else(|| eyre!(..))`
#[verifier::external_body]
pub fn vf_checked_sub_or_err(a: usize, b: usize) -> (r: Result<usize, VfError>)
    ensures a >= b ==> r == Ok::<usize, VfError>((a - b) as usize), a < b ==> r is Err
{ unimplemented!() }
/// `v[p..p + 8].copy_from_slice(&x.to_le_bytes())`
#[verifier::external_body]
pub fn vf_copy_le_u64(v: &mut Vec<u8>, p: usize, x: u64)
    requires p + 8 <= old(v)@.len()
    ensures
        final(v)@.len() == old(v)@.len(),
        forall|i: int| 0 <= i < old(v)@.len() && !(p <= i < p + 8) ==> final(v)@[i] == old(v)@[i],
        vstd::bytes::spec_u64_from_le_bytes(final(v)@.subrange(p as int, p + 8)) == x,
{ unimplemented!() }
/// the static PICKLE_OPCODES phf map (src/opcodes.rs): U7 -- the Kani harness u7_tables proves, on the
/// real static, that the table of protocol v is exactly the CPython vocabulary introduced up to v
#[verifier::external_body]
pub fn vf_pickle_opcodes(version: u8) -> (r: Option<&'static [OpcodeKind]>)
    ensures
        version <= 5 ==> r is Some,
        r is Some ==> (forall|i: int| 0 <= i < r.unwrap()@.len() ==> ref_proto(#[trigger] r.unwrap()@[i]) <= version),
        r is Some ==> r.unwrap()@.contains(OpcodeKind::None),
        r is Some ==> r.unwrap()@.contains(OpcodeKind::Int),
        // nothing missing (Kani u7_tables_exact, inclusion vocabulary <= table)
        r is Some ==> (forall|op: OpcodeKind| ref_proto(op) <= version ==> #[trigger] r.unwrap()@.contains(op)),
{ unimplemented!() }
pub open spec fn vf_int_like(op: OpcodeKind) -> bool {
    op == OpcodeKind::Int || op == OpcodeKind::Long || op == OpcodeKind::Long1 || op == OpcodeKind::Long4
    || op == OpcodeKind::BinInt || op == OpcodeKind::BinInt1 || op == OpcodeKind::BinInt2
}
/// `valid.iter().cloned().filter(|k| matches!(k, Int | Long | Long1 | Long4 | BinInt | BinInt1 | BinInt2)).collect()`
#[verifier::external_body]
pub fn vf_filter_int_like(valid: &[OpcodeKind]) -> (r: Vec<OpcodeKind>)
    ensures
        forall|i: int| 0 <= i < r@.len() ==> vf_int_like(#[trigger] r@[i]) && valid@.contains(r@[i]),
        valid@.contains(OpcodeKind::Int) ==> r@.len() > 0,
{ unimplemented!() }
/// format!("{int}\n") / format!("{int}L\n")
#[verifier::external_body]
pub fn vf_fmt_i32_nl(x: i32) -> (r: VfText)
    ensures r.bytes().len() >= 2, text_ok(ArgClass::DecNl, r.bytes())
{ unimplemented!() }
#[verifier::external_body]
pub fn vf_fmt_i32_l_nl(x: i32) -> (r: VfText)
    ensures r.bytes().len() >= 3, text_ok(ArgClass::DecNlLong, r.bytes())
{ unimplemented!() }
/// `arr.to_vec()` / `arr[..2].to_vec()`
#[verifier::external_body]
pub fn vf_arr4_to_vec(a: [u8; 4]) -> (r: Vec<u8>)
    ensures r@ == a@
{ unimplemented!() }
#[verifier::external_body]
pub fn vf_first2_to_vec(a: &[u8; 4]) -> (r: Vec<u8>)
    ensures r@ == a@.take(2)
{ unimplemented!() }

pub assume_specification<T> [<[T]>::reverse] (s: &mut [T])
    ensures final(s)@ == old(s)@.reverse();

// payload only: the extended vector is some vector (contents are not modelled)
pub assume_specification<T, A, I> [<std::vec::Vec<T, A> as std::iter::Extend<T>>::extend] (_0: &mut std::vec::Vec<T, A>, _1: I)
    where A: std::alloc::Allocator, I: std::iter::IntoIterator<Item = T>;

} // verus!

// Pointer-based Hash / Eq of the real StackObjectRef (src/stack.rs): only their existence matters
// here (HashMap/HashSet payload operations need the bounds); payload contents are not modelled.
impl PartialEq for StackObjectRef { fn eq(&self, _other: &Self) -> bool { unimplemented!() } }
impl Eq for StackObjectRef {}
impl std::hash::Hash for StackObjectRef { fn hash<H: std::hash::Hasher>(&self, _state: &mut H) { unimplemented!() } }
