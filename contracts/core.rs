#![feature(allocator_api)]
#![allow(unused, non_snake_case, deprecated)]
// Unit "core": generator side (U1-U6): function bodies are pasted from /repo/src by lib/extract.py on every run.
//@include-template contracts/prelude.tpl.rs

verus! {

impl Version {
//@fn src/protocol.rs Version::try_from
//@ret res
//@props C05 C09
//@sigsubst Result<Self, Self::Error> => Result<Version, VfError>
//@subst color_eyre::eyre::eyre!( ... ) => VfError { code: 3 }
//@contract
    ensures
        // the requested protocol number is the protocol of the generator built from it (CLI --protocol, Python binding)
        value <= 5 ==> res is Ok && ver_num(res->Ok_0) == value, // @C05
        value > 5 ==> res is Err, // @C05
//@endfn
}

impl OpcodeKind {
//@fn src/opcodes.rs OpcodeKind::as_u8
//@ret r
//@props C04 C05 C06 C10 C09
//@contract
    ensures r as int == ref_code(self), // @C04 @C05 @C06 @C10 @C12? @C17
//@endfn
}

impl Stack {
    pub open spec fn view(&self) -> Seq<Kind> {
        Seq::new(self.inner@.len(), |i: int| self.inner@[i].kind())
    }

//@fn src/stack.rs Stack::new
//@ret res
//@props C08 C10 C09
//@subst Self::default() => vf_stack_default()
//@contract
    ensures res.inner@.len() == 0,
//@endfn

//@fn src/stack.rs Stack::reset
//@props C01 C02 C03 C05 C06 C08 C10 C11 C17 C09
//@contract
    ensures final(self).view() == Seq::<Kind>::empty(), // @C08 @C01 @C17
//@endfn

//@fn src/stack.rs Stack::push
//@props C01 C02 C03 C05 C06 C10 C11 C17 C09
//@contract
    ensures final(self).view() == old(self).view().push(kind_of(value)),
//@after 1 self.inner.push(
        assert(self.view() =~= old(self).view().push(kind_of(value)));
//@endfn

//@fn src/stack.rs Stack::pop
//@props C01 C02 C03 C05 C06 C10 C11 C17 C09
//@ret r
//@contract
    ensures
        old(self).view().len() == 0 ==> r.is_none() && final(self).view() == old(self).view(),
        old(self).view().len() > 0 ==> r.is_some() && r.unwrap().kind() == old(self).view().last()
            && final(self).view() == old(self).view().drop_last(),
//@endfn

//@fn src/stack.rs Stack::peek
//@props C01 C02 C03 C05 C06 C10 C11 C17 C09
//@ret r
//@contract
    ensures
        self.view().len() == 0 ==> r.is_none(),
        self.view().len() > 0 ==> r.is_some() && r.unwrap().kind() == self.view().last(),
//@endfn

//@fn src/stack.rs Stack::len
//@props C01 C02 C03 C05 C06 C10 C11 C17 C09
//@ret r
//@contract
    ensures r == self.view().len(),
//@endfn
}

/// the reference preconditions of one step plus the simulation-side fact process_stack_ops relies on
pub open spec fn pso_ok(g: &Generator, op: OpcodeKind, a: RefArg, r: RefState) -> bool {
    ref_pre(op, a, r) && g.sim_pre(op)
}

/// the opcodes whose simulation writes the memo, and the key they write (any state, unsafe mode included)
pub open spec fn memo_writer(op: OpcodeKind) -> bool {
    op == OpcodeKind::Put || op == OpcodeKind::BinPut || op == OpcodeKind::LongBinPut || op == OpcodeKind::Memoize
}
pub open spec fn put_key(g: &Generator, op: OpcodeKind, a: RefArg) -> usize {
    if op == OpcodeKind::Memoize { g.state.memo@.len() as usize } else { a.idx as usize }
}
/// the simulated memo keys are exactly 0..len (every mode: the emitters always write index == len)
pub open spec fn sim_contig(g: &Generator) -> bool {
    forall|k: usize| #[trigger] g.state.memo@.dom().contains(k) <==> (k as int) < g.state.memo@.len()
}
/// any-mode invariant of a generation call (budget below 2^32, as in safe mode): keys 0..len, len below the u32 range
pub open spec fn contig_pre(g: &Generator) -> bool {
    sim_contig(g) && g.state.memo@.len() < 0xffff_ffff
}
pub open spec fn contig_post(o: &Generator, n: &Generator) -> bool {
    sim_contig(n) && n.state.memo@.len() <= o.state.memo@.len() + 1
}
pub proof fn lemma_contig_step(o: &Generator, n: &Generator, op: OpcodeKind, a: RefArg)
    requires
        sim_contig(o), o.state.memo@.dom().finite(),
        n.state.memo@.dom() == o.state.memo@.dom()
            || (memo_writer(op) && n.state.memo@.dom() == o.state.memo@.dom().insert(put_key(o, op, a))),
        memo_writer(op) ==> put_key(o, op, a) as int == o.state.memo@.len(),
    ensures contig_post(o, n)
{
    if n.state.memo@.dom() == o.state.memo@.dom() {
        assert(n.state.memo@.len() == o.state.memo@.len());
    } else {
        assert(!o.state.memo@.dom().contains(put_key(o, op, a)));
        assert(n.state.memo@.len() == o.state.memo@.len() + 1);
    }
}

pub open spec fn le_u32(b: Seq<u8>) -> int {
    vstd::bytes::spec_u32_from_le_bytes(seq![b[0], b[1], b[2], b[3]]) as int
}

/// what the emitters guarantee about the argument bytes handed to process_stack_ops (U6, Kani side):
/// the bytes are complete for the opcode's format and, for memo opcodes, denote the index `a.idx`
pub open spec fn arg_link(op: OpcodeKind, arg_bytes: Option<&[u8]>, a: RefArg) -> bool {
    let some = arg_bytes.is_some();
    let b = arg_bytes.unwrap()@;
    match op {
        OpcodeKind::Put | OpcodeKind::Get =>
            some && vf_parse_index(b) == Some(a.idx as usize) && 0 <= a.idx <= usize::MAX,
        OpcodeKind::BinPut | OpcodeKind::BinGet =>
            some && b.len() >= 1 && b[0] as int == a.idx,
        OpcodeKind::LongBinPut | OpcodeKind::LongBinGet =>
            some && b.len() >= 4 && le_u32(b) == a.idx,
        OpcodeKind::BinInt => some && b.len() >= 4,
        OpcodeKind::BinInt1 => some && b.len() >= 1,
        OpcodeKind::BinInt2 => some && b.len() >= 2,
        OpcodeKind::BinFloat => some && b.len() >= 8,
        OpcodeKind::Long1 => some && b.len() >= 1 && b.len() > b[0] as int,
        OpcodeKind::Long4 => some && b.len() >= 4 && b.len() >= 4 + le_u32(b),
        OpcodeKind::Global | OpcodeKind::Inst => some && vf_line_parts(b) >= 2,
        OpcodeKind::PersID => some,
        _ => true,
    }
}

impl State {
//@fn src/state.rs State::new
//@ret res
//@props C08 C10 C09
//@subst ..Default::default() => ..vf_state_default()
//@contract
    ensures
        res.version == version,
        !res.proto_emitted,
        res.stack.inner@.len() == 0,
        res.memo@ == Map::<usize, StackObjectRef>::empty(),
//@endfn

//@fn src/state.rs State::reset
//@props C08 C01 C02 C05 C06 C17 C09
//@contract
    ensures
        !final(self).proto_emitted, // @C08 @C05 @C06
        // a memo entry surviving into the next pickle is a GET of an index this pickle never defined (C02) and a simulation that no longer mirrors the bytes (C17)
        final(self).memo@ == Map::<usize, StackObjectRef>::empty(), // @C08 @C02 @C17
        final(self).stack.view() == Seq::<Kind>::empty(), // @C08 @C01 @C17
        final(self).version == old(self).version,
//@endfn
}

impl Generator {
    pub open spec fn view(&self) -> Seq<Kind> { self.state.stack.view() }

    /// simulated memo vs reference memo: same index set and size
    pub open spec fn memo_dom_rel(&self, r: RefState) -> bool {
        &&& forall|k: usize| #[trigger] self.state.memo@.dom().contains(k) <==> r.memo.dom().contains(k as int)
        &&& forall|k: int| #[trigger] r.memo.dom().contains(k) ==> 0 <= k <= usize::MAX
        &&& self.state.memo@.len() == r.memo_len
    }
    /// ... and compatible kinds
    pub open spec fn memo_kinds_rel(&self, r: RefState) -> bool {
        forall|k: usize| #[trigger] self.state.memo@.dom().contains(k) ==> compat(self.state.memo@[k].kind(), r.memo[k as int])
    }
    pub open spec fn memo_rel(&self, r: RefState) -> bool {
        self.memo_dom_rel(r) && self.memo_kinds_rel(r)
    }

    /// C17: the simulation mirrors the reference machine
    pub open spec fn rel(&self, r: RefState) -> bool {
        compat_stack(self.view(), r.stack) && self.memo_rel(r)
    }

    /// the reference state that has exactly the simulated kinds: every simulated state is related to it.
    /// Used when unsafe mutations let the simulation drift from the bytes: the simulation is still a
    /// well-defined machine of its own, which is all that termination and panic-freedom need.
    pub open spec fn own_state(&self) -> RefState {
        RefState {
            stack: self.view(),
            memo: Map::new(self.state.memo@.dom().map(|k: usize| k as int), |k: int| self.state.memo@[k as usize].kind()),
            memo_len: self.state.memo@.len() as int,
        }
    }
    pub proof fn lemma_own_rel(&self)
        ensures self.rel(self.own_state())
    {
        let m = self.state.memo@;
        let r = self.own_state();
        assert forall|k: usize| #[trigger] m.dom().contains(k) <==> r.memo.dom().contains(k as int) by {
            if m.dom().contains(k) { assert(m.dom().map(|k: usize| k as int).contains(k as int)); }
            if r.memo.dom().contains(k as int) {
                let x = choose|x: usize| m.dom().contains(x) && x as int == k as int;
                assert(x == k);
            }
        }
        assert forall|k: int| #[trigger] r.memo.dom().contains(k) implies 0 <= k <= usize::MAX by {
            let x = choose|x: usize| m.dom().contains(x) && x as int == k;
        }
    }

//@fn src/generator/utils.rs Generator::peek
//@props C01 C02 C03 C05 C06 C10 C11 C17 C09
//@ret r
//@contract
    ensures
        self.view().len() == 0 ==> r.is_none(),
        self.view().len() > 0 ==> r.is_some() && r.unwrap().kind() == self.view().last(),
//@endfn

//@fn src/generator/utils.rs Generator::push
//@props C01 C02 C03 C05 C06 C10 C11 C17 C09
//@contract
    ensures
        final(self).view() == old(self).view().push(kind_of(value)),
        final(self).state.memo == old(self).state.memo,
        final(self).output == old(self).output,
        final(self).same_config(old(self)), // @C08
//@endfn

//@fn src/generator/utils.rs Generator::pop
//@props C01 C02 C03 C05 C06 C10 C11 C17 C09
//@ret r
//@contract
    ensures
        old(self).view().len() == 0 ==> r.is_none() && final(self).view() == old(self).view(),
        old(self).view().len() > 0 ==> r.is_some() && r.unwrap().kind() == old(self).view().last()
            && final(self).view() == old(self).view().drop_last(),
        final(self).state.memo == old(self).state.memo,
        final(self).output == old(self).output,
        final(self).same_config(old(self)), // @C08
//@endfn

//@fn src/generator/utils.rs Generator::get
//@props C01 C02 C03 C05 C06 C10 C11 C17 C09
//@ret r
//@contract
    ensures
        !self.state.memo@.dom().contains(index) ==> r.is_none(),
        self.state.memo@.dom().contains(index) ==> r.is_some() && r.unwrap().kind() == self.state.memo@[index].kind(),
//@endfn

//@fn src/generator/utils.rs Generator::put
//@props C01 C02 C03 C05 C06 C10 C11 C17 C09
//@contract
    ensures
        final(self).state.memo@.dom() == old(self).state.memo@.dom().insert(index),
        final(self).state.memo@[index].kind() == kind_of(value),
        forall|k: usize| k != index && old(self).state.memo@.dom().contains(k) ==> final(self).state.memo@[k] == old(self).state.memo@[k],
        final(self).state.stack == old(self).state.stack,
        final(self).output == old(self).output,
        final(self).same_config(old(self)), // @C08
//@endfn

//@fn src/generator/utils.rs Generator::peek_at
//@props C01 C02 C03 C05 C06 C10 C11 C17 C09
//@ret r
//@contract
    ensures
        depth >= self.view().len() ==> r.is_none(),
        depth < self.view().len() ==> r.is_some() && r.unwrap().kind() == at(self.view(), depth as int),
//@endfn

//@fn src/generator/utils.rs Generator::is_list_at
//@props C01 C02 C03 C05 C06 C10 C11 C17 C09
//@ret r
//@contract
    ensures r == (depth < self.view().len() && at(self.view(), depth as int) == Kind::List),
//@endfn

//@fn src/generator/utils.rs Generator::is_dict_at
//@props C01 C02 C03 C05 C06 C10 C11 C17 C09
//@ret r
//@contract
    ensures r == (depth < self.view().len() && at(self.view(), depth as int) == Kind::Dict),
//@endfn

//@fn src/generator/utils.rs Generator::is_tuple_at
//@props C01 C02 C03 C05 C06 C10 C11 C17 C09
//@ret r
//@contract
    ensures r == (depth < self.view().len() && at(self.view(), depth as int) == Kind::Tuple),
//@endfn

//@fn src/generator/utils.rs Generator::is_instance_at
//@props C01 C02 C03 C05 C06 C10 C11 C17 C09
//@ret r
//@contract
    ensures r == (depth < self.view().len() && at(self.view(), depth as int) == Kind::Instance),
//@endfn

//@fn src/generator/utils.rs Generator::is_string_at
//@props C01 C02 C03 C05 C06 C10 C11 C17 C09
//@ret r
//@contract
    ensures r == (depth < self.view().len() && at(self.view(), depth as int) == Kind::String),
//@endfn

//@fn src/generator/utils.rs Generator::is_callable_at
//@props C01 C02 C03 C05 C06 C10 C11 C17 C09
//@ret r
//@contract
    ensures r == (depth < self.view().len()
        && (at(self.view(), depth as int) == Kind::Callable || at(self.view(), depth as int) == Kind::Global)),
//@endfn

//@fn src/generator/utils.rs Generator::has_mark
//@props C01 C02 C03 C05 C06 C10 C11 C17 C09
//@ret r
//@rewrite R3
//@contract
    ensures r == (top_mark(self.view()) >= 0),
//@loop 1
            invariant
                vf_i <= self.state.stack.inner.len(),
                forall|j: int| 0 <= j < vf_i ==> self.view()[j] != Kind::Mark,
            decreases self.state.stack.inner.len() - vf_i,
//@before 1 return true;
                proof { lemma_top_mark_props(self.view()); assert(self.view()[vf_i as int] == Kind::Mark);
                        if top_mark(self.view()) < 0 { assert(self.view()[vf_i as int] != Kind::Mark); } }
//@before 1 false
        proof { lemma_top_mark_props(self.view()); }
//@endfn

//@fn src/generator/utils.rs Generator::count_items_to_mark
//@props C01 C02 C03 C05 C06 C10 C11 C17 C09
//@ret r
//@rewrite R2
//@contract
    ensures
        top_mark(self.view()) >= 0 ==> r.is_some() && r.unwrap() as int == self.view().len() - 1 - top_mark(self.view()),
        top_mark(self.view()) < 0 ==> r.is_none(),
//@loop 1
            invariant
                vf_c <= self.state.stack.inner.len(),
                forall|j: int| self.view().len() - vf_c <= j < self.view().len() ==> self.view()[j] != Kind::Mark,
            decreases self.state.stack.inner.len() - vf_c,
//@before 1 return Some(count);
                proof { lemma_top_mark_unique(self.view(), self.view().len() - 1 - count); }
//@before 1 None
        proof { lemma_top_mark_unique(self.view(), -1); }
//@endfn

//@fn src/generator/utils.rs Generator::is_list_at_mark
//@props C01 C02 C03 C05 C06 C10 C11 C17 C09
//@ret r
//@rewrite R1
//@contract
    ensures r == (top_mark(self.view()) >= 1 && self.view()[top_mark(self.view()) - 1] == Kind::List),
//@loop 1
            invariant
                vf_n <= self.state.stack.inner.len(),
                forall|j: int| vf_n <= j < self.view().len() ==> self.view()[j] != Kind::Mark,
            decreases vf_n,
//@before 1 if idx > 0 {
                proof { lemma_top_mark_unique(self.view(), idx as int); }
//@before 1 false
        proof { lemma_top_mark_unique(self.view(), -1); }
//@endfn

//@fn src/generator/utils.rs Generator::is_dict_at_mark
//@props C01 C02 C03 C05 C06 C10 C11 C17 C09
//@ret r
//@rewrite R1
//@contract
    ensures r == (top_mark(self.view()) >= 1 && self.view()[top_mark(self.view()) - 1] == Kind::Dict),
//@loop 1
            invariant
                vf_n <= self.state.stack.inner.len(),
                forall|j: int| vf_n <= j < self.view().len() ==> self.view()[j] != Kind::Mark,
            decreases vf_n,
//@before 1 if idx > 0 {
                proof { lemma_top_mark_unique(self.view(), idx as int); }
//@before 1 false
        proof { lemma_top_mark_unique(self.view(), -1); }
//@endfn

//@fn src/generator/utils.rs Generator::is_set_at_mark
//@props C01 C02 C03 C05 C06 C10 C11 C17 C09
//@ret r
//@rewrite R1
//@contract
    ensures r == (top_mark(self.view()) >= 1 && self.view()[top_mark(self.view()) - 1] == Kind::Set),
//@loop 1
            invariant
                vf_n <= self.state.stack.inner.len(),
                forall|j: int| vf_n <= j < self.view().len() ==> self.view()[j] != Kind::Mark,
            decreases vf_n,
//@before 1 if idx > 0 {
                proof { lemma_top_mark_unique(self.view(), idx as int); }
//@before 1 false
        proof { lemma_top_mark_unique(self.view(), -1); }
//@endfn

//@fn src/generator/utils.rs Generator::is_callable_above_mark
//@props C01 C02 C03 C05 C06 C10 C11 C17 C09
//@ret r
//@rewrite R1
//@contract
    ensures r == (top_mark(self.view()) >= 0 && top_mark(self.view()) + 1 < self.view().len()
        && (self.view()[top_mark(self.view()) + 1] == Kind::Callable || self.view()[top_mark(self.view()) + 1] == Kind::Global)),
//@loop 1
            invariant
                vf_n <= self.state.stack.inner.len(),
                forall|j: int| vf_n <= j < self.view().len() ==> self.view()[j] != Kind::Mark,
            decreases vf_n,
//@before 1 let above_idx
                proof { lemma_top_mark_unique(self.view(), idx as int); }
//@before 1 false
        proof { lemma_top_mark_unique(self.view(), -1); }
//@endfn

    /// what a `true` answer of can_emit must imply (C01 stack, C02 memo side, C03 kinds, C10 flags,
    /// C06 no FRAME, never STOP, PROTO at most once)
    pub open spec fn guard_ok(&self, op: OpcodeKind, r: RefState) -> bool {
        &&& op != OpcodeKind::Stop && op != OpcodeKind::Frame
        &&& ref_pre_stack(op, r)
        &&& !self.unsafe_mutations ==> ref_pre_kind(op, r)
        &&& is_get(op) ==> self.state.memo@.len() > 0
        &&& (is_put(op) || op == OpcodeKind::Memoize) ==> r.stack.len() >= 1 && r.stack.last() != Kind::Mark
        &&& (op == OpcodeKind::Ext1 || op == OpcodeKind::Ext2 || op == OpcodeKind::Ext4) ==> self.allow_ext_opcodes
        &&& (op == OpcodeKind::NextBuffer || op == OpcodeKind::ReadOnlyBuffer) ==> self.allow_buffer_opcodes
        &&& op == OpcodeKind::Proto ==> !self.state.proto_emitted
        &&& op == OpcodeKind::BinPut ==> self.state.memo@.len() < 256
        &&& !self.unsafe_mutations ==> self.sim_pre(op)
    }

    /// simulation-side facts a guard establishes that process_stack_ops relies on (STACK_GLOBAL only
    /// pushes its result when it sees two String cells)
    pub open spec fn sim_pre(&self, op: OpcodeKind) -> bool {
        op == OpcodeKind::StackGlobal ==>
            self.view().len() >= 2 && at(self.view(), 0) == Kind::String && at(self.view(), 1) == Kind::String
    }


    /// C12: one concrete, reachable state per opcode in which its guard must say yes (no opcode is dead).
    /// The states are the end states of the witness traces listed in contracts/witnesses.md; every
    /// witness trace consists of unconditionally valid opcodes (value pushers, MARK) and of opcodes
    /// executed exactly in their own witness state.
    pub open spec fn witness(&self, op: OpcodeKind) -> bool {
        let v = self.view();
        let none1 = seq![Kind::None];
        match op {
            OpcodeKind::Pop | OpcodeKind::Dup | OpcodeKind::Tuple1 | OpcodeKind::BinPersID => v == none1,
            OpcodeKind::Put | OpcodeKind::LongBinPut | OpcodeKind::Memoize => v == none1,
            OpcodeKind::BinPut => v == none1 && self.state.memo@.len() < 256,
            OpcodeKind::Append => v == seq![Kind::List, Kind::None],
            OpcodeKind::Appends => v == seq![Kind::List, Kind::Mark, Kind::None],
            OpcodeKind::SetItem => v == seq![Kind::Dict, Kind::None, Kind::None],
            OpcodeKind::SetItems => v == seq![Kind::Dict, Kind::Mark, Kind::None, Kind::None],
            OpcodeKind::AddItems => v == seq![Kind::Set, Kind::Mark, Kind::None],
            OpcodeKind::Tuple | OpcodeKind::List | OpcodeKind::FrozenSet | OpcodeKind::PopMark => v == seq![Kind::Mark],
            OpcodeKind::Dict => v == seq![Kind::Mark, Kind::None, Kind::None],
            OpcodeKind::Tuple2 => v == seq![Kind::None, Kind::None],
            OpcodeKind::Tuple3 => v == seq![Kind::None, Kind::None, Kind::None],
            OpcodeKind::Reduce | OpcodeKind::NewObj => v == seq![Kind::Callable, Kind::Tuple],
            OpcodeKind::NewObjEx => v == seq![Kind::Callable, Kind::Tuple, Kind::Dict],
            OpcodeKind::Build => v == seq![Kind::Instance, Kind::Tuple],
            OpcodeKind::Inst => v == seq![Kind::Mark, Kind::None],
            OpcodeKind::Obj => v == seq![Kind::Mark, Kind::Callable],
            OpcodeKind::Get | OpcodeKind::BinGet | OpcodeKind::LongBinGet => self.state.memo@.len() > 0,
            OpcodeKind::StackGlobal => v == seq![Kind::String, Kind::String],
            OpcodeKind::Proto => !self.state.proto_emitted,
            OpcodeKind::Ext1 | OpcodeKind::Ext2 | OpcodeKind::Ext4 => self.allow_ext_opcodes,
            OpcodeKind::NextBuffer => self.allow_buffer_opcodes,
            OpcodeKind::ReadOnlyBuffer => self.allow_buffer_opcodes && v == none1,
            // never offered during generation: STOP ends every pickle, FRAME is back-patched
            OpcodeKind::Stop | OpcodeKind::Frame => false,
            // value pushers and MARK: valid in every state
            _ => true,
        }
    }

//@arms src/generator/validation.rs Generator::can_emit opcode
//@ret res
//@ghost Ghost(r): Ghost<RefState>
//@rewrite R11?
//@prelude
        proof { lemma_top_mark_compat(self.view(), r.stack); lemma_top_mark_props(r.stack); }
//@props C01 C02 C03 C05 C06 C10 C12 C17 C09
//@contract
    requires
        self.rel(r),
    ensures
        res ==> opcode != OpcodeKind::Stop && opcode != OpcodeKind::Frame, // @C01 @C06
        // (an opcode the reference machine cannot execute leaves no reference state for the simulation to mirror: C17)
        res ==> ref_pre_stack(opcode, r), // @C01 @C17
        res && !self.unsafe_mutations ==> ref_pre_kind(opcode, r), // @C03
        // (an emitter offered a GET with an empty memo writes nothing: the chosen body opcode then contributes no opcode, C11)
        res && is_get(opcode) ==> self.state.memo@.len() > 0, // @C02 @C11
        res && (is_put(opcode) || opcode == OpcodeKind::Memoize) ==> r.stack.len() >= 1 && r.stack.last() != Kind::Mark, // @C02
        res && (opcode == OpcodeKind::Ext1 || opcode == OpcodeKind::Ext2 || opcode == OpcodeKind::Ext4) ==> self.allow_ext_opcodes, // @C10
        res && (opcode == OpcodeKind::NextBuffer || opcode == OpcodeKind::ReadOnlyBuffer) ==> self.allow_buffer_opcodes, // @C10
        res && opcode == OpcodeKind::Proto ==> !self.state.proto_emitted, // @C05
        res && opcode == OpcodeKind::BinPut ==> self.state.memo@.len() < 256, // @C02
        res && !self.unsafe_mutations ==> self.sim_pre(opcode), // @C17
        res ==> self.guard_ok(opcode, r),
        opcode == OpcodeKind::None ==> res, // @C11 @C12?
        self.witness(opcode) ==> res, // @C12?
//@arm SetItems
//@prelude
        assert(self.view().len() == r.stack.len());
        assert(items_above_mark(r.stack) == self.view().len() - 1 - top_mark(self.view()));
//@arm Dict
//@prelude
        assert(self.view().len() == r.stack.len());
        assert(items_above_mark(r.stack) == self.view().len() - 1 - top_mark(self.view()));

//@endfn

    pub open spec fn same_config(&self, o: &Generator) -> bool {
        &&& self.state.version == o.state.version
        &&& self.state.proto_emitted == o.state.proto_emitted
        &&& self.seed == o.seed && self.bufsize == o.bufsize
        &&& self.min_opcodes == o.min_opcodes && self.max_opcodes == o.max_opcodes
        &&& self.mutators == o.mutators && self.mutation_rate == o.mutation_rate
        &&& self.unsafe_mutations == o.unsafe_mutations
        &&& self.allow_ext_opcodes == o.allow_ext_opcodes
        &&& self.allow_buffer_opcodes == o.allow_buffer_opcodes
    }

    /// loop invariant of the `while let Some(item) = self.pop()` collapse loops: a prefix of the
    /// entry stack that still contains the topmost MARK
    /// in every state: the stack is a prefix of the entry stack and nothing else changed
    pub open spec fn prefix_of(&self, o: &Generator) -> bool {
        &&& self.view().len() <= o.view().len()
        &&& self.view() =~= o.view().subrange(0, self.view().len() as int)
        &&& self.state.memo == o.state.memo && self.output == o.output && self.same_config(o)
    }
    /// ... that still contains the topmost MARK, if there is one
    pub open spec fn popping(&self, o: &Generator) -> bool {
        self.prefix_of(o) && top_mark(o.view()) < self.view().len()
    }
    /// loop exit: cut at the topmost MARK, or everything popped when there was none
    pub open spec fn popped_to_mark(&self, o: &Generator) -> bool {
        &&& self.prefix_of(o)
        &&& top_mark(o.view()) >= 0 ==> self.view() =~= o.view().subrange(0, top_mark(o.view()))
        &&& top_mark(o.view()) < 0 ==> self.view().len() == 0
    }

//@define POP_TO_MARK_LOOP
//@loop 1
                    invariant_except_break self.popping(old(self)),
                    ensures self.popped_to_mark(old(self)),
                    decreases self.view().len(),
//@after 1 while let Some(item) = self.pop()
                    proof { lemma_top_mark_props(old(self).view()); }
//@enddef

//@define PAIR_LOOP
//@loop 1
                    invariant_except_break
                        self.prefix_of(old(self)),
                        // with an even number of operands above the MARK (reference precondition) the key pop never reaches it
                        pso_ok(old(self), opcode, a, r) ==> self.popping(old(self)) && top_mark(old(self).view()) >= 0
                            && (self.view().len() - 1 - top_mark(old(self).view())) % 2 == 0,
                    ensures
                        self.prefix_of(old(self)),
                        pso_ok(old(self), opcode, a, r) ==> self.popped_to_mark(old(self)) && top_mark(old(self).view()) >= 0,
                    decreases self.view().len(),
//@after 1 while let Some(value) = self.pop()
                    proof { lemma_top_mark_props(old(self).view()); }
//@enddef

//@arms src/generator/stack_ops.rs Generator::process_stack_ops opcode
//@ghost Ghost(r): Ghost<RefState>, Ghost(a): Ghost<RefArg>
//@props C01 C02 C03 C17 C09
//@prelude
        proof { lemma_top_mark_compat(self.view(), r.stack); lemma_top_mark_props(r.stack); }
//@contract
    requires
        old(self).rel(r),
        arg_link(opcode, arg_bytes, a), // @C17 @C04 @C09
    ensures
        // whenever the reference preconditions hold (always, in safe mode) the simulation follows the reference machine
        pso_ok(old(self), opcode, a, r) ==> shape_eq(final(self).view(), sim_step(opcode, a, r).stack), // @C01 @C03 @C17
        pso_ok(old(self), opcode, a, r) ==> kinds_ok(final(self).view(), sim_step(opcode, a, r).stack), // @C03 @C17
        pso_ok(old(self), opcode, a, r) ==> final(self).memo_dom_rel(sim_step(opcode, a, r)), // @C02 @C17
        pso_ok(old(self), opcode, a, r) ==> final(self).memo_kinds_rel(sim_step(opcode, a, r)), // @C03 @C17
        pso_ok(old(self), opcode, a, r) ==> final(self).rel(sim_step(opcode, a, r)),
        // in every state (unsafe mutations included): no panic, and only the simulated stack/memo change
        final(self).state.memo@.dom() == old(self).state.memo@.dom()
            || (memo_writer(opcode) && final(self).state.memo@.dom() == old(self).state.memo@.dom().insert(put_key(old(self), opcode, a))), // @C11 @C02
        final(self).output == old(self).output, // @C04 @C06
        final(self).same_config(old(self)), // @C05 @C10 @C08
//@arm Dup
//@after 1 self.state.stack.inner.push(top.clone());
                        assert(self.view() =~= old(self).view().push(old(self).view().last()));
//@arm PopMark
//@use POP_TO_MARK_LOOP
//@arm Appends
//@use POP_TO_MARK_LOOP
//@arm List
//@use POP_TO_MARK_LOOP
//@arm Tuple
//@use POP_TO_MARK_LOOP
//@arm AddItems
//@use POP_TO_MARK_LOOP
//@arm FrozenSet
//@use POP_TO_MARK_LOOP
//@arm Obj
//@loop 1
                    invariant_except_break
                        self.popping(old(self)),
                        accumulated@.len() == old(self).view().len() - self.view().len(),
                    ensures
                        self.popped_to_mark(old(self)),
                        top_mark(old(self).view()) >= 0 ==> accumulated@.len() == old(self).view().len() - 1 - top_mark(old(self).view()),
                    decreases self.view().len(),
//@after 1 while let Some(item) = self.pop()
                    proof { lemma_top_mark_props(old(self).view()); }
//@arm Dict
//@use PAIR_LOOP
//@arm SetItems
//@use PAIR_LOOP
//@arm Int
//@subst if let Ok(value_str) = std::str::from_utf8(arg_bytes) { ... } else { 0 } => vf_parse_i64(arg_bytes)
//@arm Long
//@subst if let Ok(value_str) = std::str::from_utf8(arg_bytes) { ... } else { 0 } => vf_parse_i64(arg_bytes)
//@arm Float
//@subst if let Ok(value_str) = std::str::from_utf8(arg_bytes) { ... } else { 0.0 } => vf_parse_f64(arg_bytes)
//@arm BinInt
//@subst i32::from_le_bytes( => vf_i32_from_le_bytes(
//@arm BinInt2
//@subst u16::from_le_bytes( => vf_u16_from_le_bytes(
//@arm BinFloat
//@subst f64::from_be_bytes( => vf_f64_from_be_bytes(
//@arm Long1
//@subst for (i, &b) in ... { ... } => value = vf_le_bytes_to_i64(int_bytes);
//@arm Long4
//@subst for (i, &b) in ... { ... } => value = vf_le_bytes_to_i64(int_bytes);
//@subst u32::from_le_bytes( => vf_u32_from_le_bytes(
//@arm String | ShortBinUnicode | Unicode | BinUnicode | BinUnicode8
//@subst std::string::String::from_utf8_lossy( => vf_from_utf8_lossy(
//@arm BinString | ShortBinString | BinBytes | ShortBinBytes | BinBytes8
//@subst arg_bytes.to_vec() => vf_to_vec(arg_bytes)
//@arm ByteArray8
//@subst arg_bytes.to_vec() => vf_to_vec(arg_bytes)
//@arm Global
//@subst std::string::String::from_utf8_lossy( => vf_from_utf8_lossy(
//@subst full_string.split('\n').collect() => vf_split_lines(&full_string)
//@subst Vec<&str> => Vec<VfStr>
//@arm Inst
//@use POP_TO_MARK_LOOP
//@subst std::string::String::from_utf8_lossy( => vf_from_utf8_lossy(
//@subst full_string.split('\n').collect() => vf_split_lines(&full_string)
//@subst Vec<&str> => Vec<VfStr>
//@arm PersID
//@subst std::string::String::from_utf8_lossy( => vf_from_utf8_lossy(
//@arm Get
//@subst if let Ok(index_str) = std::str::from_utf8(arg_bytes) { if let Ok(index) = index_str.trim().parse() { ... } } => if let Some(index) = vf_parse_usize(arg_bytes) { $1 }
//@arm Put
//@subst if let Ok(index_str) = std::str::from_utf8(arg_bytes) { if let Ok(index) = index_str.trim().parse() { ... } } => if let Some(index) = vf_parse_usize(arg_bytes) { $1 }
//@arm LongBinGet
//@subst u32::from_le_bytes( => vf_u32_from_le_bytes(
//@arm LongBinPut
//@subst u32::from_le_bytes( => vf_u32_from_le_bytes(
//@endfn

//@fn src/generator/emission.rs Generator::emit_opcode
//@ghost Ghost(r): Ghost<RefState>
//@props C01 C02 C03 C04 C05 C17 C09
//@rewrite R14 process_stack_ops self.process_stack_ops($ARGS, Ghost(r), Ghost(RefArg { idx: 0 })); proof { if contig_pre(old(self)) && opcode != OpcodeKind::Put && opcode != OpcodeKind::BinPut && opcode != OpcodeKind::LongBinPut { lemma_contig_step(old(self), self, opcode, RefArg { idx: 0 }); } }
//@contract
    requires
        old(self).rel(r),
        arg_link(opcode, None, RefArg { idx: 0 }), // @C17 @C04 @C09
    ensures
        // (argument-less opcodes: MEMOIZE writes key == len, nothing else touches the memo)
        contig_pre(old(self)) && opcode != OpcodeKind::Put && opcode != OpcodeKind::BinPut && opcode != OpcodeKind::LongBinPut ==> contig_post(old(self), final(self)), // @C11 @C02
        pso_ok(old(self), opcode, RefArg { idx: 0 }, r) ==> final(self).rel(sim_step(opcode, RefArg { idx: 0 }, r)), // @C17 @C01
        final(self).output@ == old(self).output@.push(ref_code(opcode) as u8), // @C04
        final(self).same_config(old(self)), // @C08
//@endfn

    /// opcodes the stack-collapse phase may use (C05: all available in the requested protocol)
    pub open spec fn tail_op(op: OpcodeKind, v: Version) -> bool {
        (op == OpcodeKind::Tuple || op == OpcodeKind::Tuple2 || op == OpcodeKind::Tuple3
            || op == OpcodeKind::Pop || op == OpcodeKind::None)
        && ref_proto(op) <= ver_num(v)
    }

    pub open spec fn cleanup_post(&self, o: &Generator, r: RefState, t: Trace) -> bool {
        &&& ref_run_ok(r, t)                                   // every tail opcode is legal (C01)
        &&& self.rel(ref_run(r, t))
        &&& ref_run(r, t).stack.len() == 1 && ref_run(r, t).stack[0] != Kind::Mark   // exactly one object for STOP
        &&& ref_run(r, t).memo == r.memo && ref_run(r, t).memo_len == r.memo_len
        &&& self.output@ == o.output@ + codes(t)
        &&& forall|i: int| 0 <= i < t.len() ==> Generator::tail_op(#[trigger] t[i].0, o.state.version)      // C05
        &&& t.len() <= 2 * o.view().len() + 1                                         // C11
        &&& self.same_config(o)
    }

//@fn src/generator/stack_ops.rs Generator::cleanup_for_stop
//@ghost Ghost(r): Ghost<RefState>
//@props C01 C05 C11 C09
//@rewrite R20
//@rewrite R14 emit_opcode self.emit_opcode($1, Ghost(gr)); proof { let ghost gop: OpcodeKind = $1; lemma_run_push(r, gtr, gop, RefArg { idx: 0 }); lemma_codes_push(gtr, gop, RefArg { idx: 0 }); gtr = gtr.push((gop, RefArg { idx: 0 })); gr = sim_step(gop, RefArg { idx: 0 }, gr); }
//@contract
    requires
        old(self).rel(r),
    ensures
        exists|t: Trace| #[trigger] final(self).cleanup_post(old(self), r, t),
//@prelude
        let ghost mut gr: RefState = r;
        let ghost mut gtr: Trace = Seq::empty();
        proof { assert(codes(gtr) =~= Seq::<u8>::empty()); assert(self.output@ + codes(gtr) =~= self.output@);
                lemma_count_marks_shape(self.view(), r.stack); }
//@loop 1
            invariant
                self.rel(gr), gr == ref_run(r, gtr), ref_run_ok(r, gtr),
                self.output@ == old(self).output@ + codes(gtr),
                forall|i: int| 0 <= i < gtr.len() ==> Generator::tail_op(#[trigger] gtr[i].0, old(self).state.version),
                self.same_config(old(self)), gr.memo == r.memo, gr.memo_len == r.memo_len,
                gtr.len() + count_marks(gr.stack) == count_marks(r.stack),
                gr.stack.len() <= r.stack.len(),
            decreases count_marks(gr.stack),
//@before 1 self.emit_opcode(Tuple
            proof { lemma_top_mark_compat(self.view(), gr.stack); lemma_tuple_step(gr.stack); lemma_count_marks_bounds(gr.stack); }
            let ghost out0 = self.output@; let ghost tr0 = gtr;
//@after 1 self.emit_opcode(Tuple
            proof { assert(old(self).output@ + codes(tr0).push(ref_code(OpcodeKind::Tuple) as u8) =~= (old(self).output@ + codes(tr0)).push(ref_code(OpcodeKind::Tuple) as u8)); }
//@before 1 let has_tuple_n
        let ghost n1 = gtr.len(); let ghost len1 = gr.stack.len();
        proof { lemma_top_mark_compat(self.view(), gr.stack); lemma_count_marks_bounds(gr.stack); lemma_count_marks_bounds(r.stack); }
//@loop 2
            invariant
                self.rel(gr), gr == ref_run(r, gtr), ref_run_ok(r, gtr),
                self.output@ == old(self).output@ + codes(gtr),
                forall|i: int| 0 <= i < gtr.len() ==> Generator::tail_op(#[trigger] gtr[i].0, old(self).state.version),
                self.same_config(old(self)), gr.memo == r.memo, gr.memo_len == r.memo_len,
                count_marks(gr.stack) == 0,
                has_tuple_n == (ver_num(self.state.version) >= 2),
                gtr.len() + gr.stack.len() <= n1 + len1,
                n1 <= r.stack.len(), len1 <= r.stack.len(),
            ensures
                self.view().len() <= 1,
            decreases gr.stack.len(),
//@before 1 self.emit_opcode(Pop
                proof { lemma_nomark_step(gr.stack, 1, false); }
//@before 1 self.emit_opcode(Tuple3
                proof { lemma_nomark_step(gr.stack, 3, true); }
//@before 1 self.emit_opcode(Tuple2
                proof { lemma_nomark_step(gr.stack, 2, true); }
//@before 1 self.emit_opcode(None
            proof { lemma_nomark_step(gr.stack, 0, false); lemma_count_marks_push(gr.stack.subrange(0, gr.stack.len() as int), Kind::None); }
//@before 1 if matches!(*top.borrow(), StackObject::Mark)
            proof { lemma_nomark_step(gr.stack, 0, false); lemma_top_mark_props(gr.stack);
                    lemma_top_mark_compat(self.view(), gr.stack); lemma_top_mark_props(self.view()); }
//@epilogue
        proof { assert(self.cleanup_post(old(self), r, gtr)); }
//@endfn

    // ---------------------------------------------------------------------------------------------
    // U6 (abstract effect of the emitters): which opcode is handed to process_stack_ops, with which
    // memo index, and that exactly one opcode is appended.  Byte-level encodings are the Kani side.
    pub open spec fn int_like(op: OpcodeKind) -> bool { vf_int_like(op) }
    pub open spec fn family(op: OpcodeKind, op2: OpcodeKind) -> bool {
        op2 == op || (Generator::int_like(op) && Generator::int_like(op2))
    }
    pub open spec fn flags_ok(&self, op: OpcodeKind) -> bool {
        &&& (op == OpcodeKind::Ext1 || op == OpcodeKind::Ext2 || op == OpcodeKind::Ext4) ==> self.allow_ext_opcodes
        &&& (op == OpcodeKind::NextBuffer || op == OpcodeKind::ReadOnlyBuffer) ==> self.allow_buffer_opcodes
        &&& op != OpcodeKind::Frame && op != OpcodeKind::Stop && op != OpcodeKind::Proto
    }
    /// what one emit_and_process call achieves: exactly one opcode `op2` (same family as the chosen
    /// one, available in the protocol, respecting the opt-in flags) whose reference preconditions
    /// hold is appended, and the simulation follows the reference machine
    pub open spec fn emit_post(&self, o: &Generator, r: RefState, op: OpcodeKind, op2: OpcodeKind, a: RefArg, chunk: Seq<u8>) -> bool {
        &&& Generator::family(op, op2)
        &&& ref_pre(op2, a, r)                                   // C01 C02 C03
        &&& self.rel(ref_step(op2, a, r))                        // C17
        &&& contig(ref_step(op2, a, r))
        &&& ref_proto(op2) <= ver_num(o.state.version)           // C05
        &&& o.flags_ok(op2)                                      // C10 C06
        &&& self.output@ == o.output@ + chunk && chunk.len() >= 1 && chunk[0] == ref_code(op2) as u8   // C11 C04
        &&& enc_ok(op2, chunk)                                   // C04: the appended bytes are exactly one well-formed opcode
        &&& self.same_config(o)
    }
    pub open spec fn emit_pre(&self, op: OpcodeKind, r: RefState) -> bool {
        &&& self.rel(r) && contig(r)
        &&& !self.unsafe_mutations && self.mutators_consistent()
        &&& self.guard_ok(op, r)
        &&& ref_proto(op) <= ver_num(self.state.version)
        &&& r.memo_len < 0x1_0000_0000
        &&& ver_num(self.state.version) >= 2 ==> self.state.proto_emitted
    }

    /// every registered mutator was created with the generator's own unsafe flag (as the CLI and the
    /// Python bindings do: MutatorKind::create(unsafe_mutations)); an explicit assumption of the safe-mode claims
    pub open spec fn mutators_consistent(&self) -> bool {
        forall|i: int| 0 <= i < vf_mutators_len_spec(&self.mutators) ==>
            (#[trigger] vf_mutator_spec(&self.mutators, i)).unsafe_mode() == self.unsafe_mutations
    }

//@define MUTATE_SUBSTS
//@rewrite R18
//@subst self.mutators.is_empty() => vf_mutators_is_empty(&self.mutators)
//@enddef

// first-applicable-mutator-wins loops of src/generator/mutation.rs (the registered mutators are an
// opaque list with the trait-level contract of contracts/shim.rs)
    /// C15 "mutated by the first such mutator": the registered mutators are asked in order, each sees the ORIGINAL value
    /// and the entropy state its predecessors left, and the first one that fires decides the result
    pub open spec fn first_int(ms: &VfMutators, k: int, v: i32, s: GenerationSource, rate: f64) -> (i32, GenerationSource)
        decreases vf_mutators_len_spec(ms) - k
    {
        if k < 0 || k >= vf_mutators_len_spec(ms) { (v, s) }
        else {
            let m = vf_mutator_spec(ms, k);
            match m.sp_int(v, s, rate) {
                Some(x) => (x, m.sp_int_src(v, s, rate)),
                None => Generator::first_int(ms, k + 1, v, m.sp_int_src(v, s, rate), rate),
            }
        }
    }

//@fn src/generator/mutation.rs Generator::mutate_int
//@ret r
//@props C04 C09 C15
//@use MUTATE_SUBSTS
//@contract
    ensures
        // (a dispatcher may skip the mutators altogether at rate 0.0: nothing fires there anyway, so that is not the property's business)
        (r, *final(source)) == Generator::first_int(&self.mutators, 0, value, *old(source), self.mutation_rate)
            || (vf_rate_zero(self.mutation_rate) && r == value), // @C15
//@loop 1
            invariant_except_break
                result == value,
                Generator::first_int(&self.mutators, vf_k as int, value, *source, self.mutation_rate)
                    == Generator::first_int(&self.mutators, 0, value, *old(source), self.mutation_rate), // @C15
            invariant vf_k <= vf_mutators_len_spec(&self.mutators),
            ensures
                (result, *source) == Generator::first_int(&self.mutators, 0, value, *old(source), self.mutation_rate), // @C15
            decreases vf_mutators_len_spec(&self.mutators) - vf_k,
//@endfn

    pub open spec fn first_float(ms: &VfMutators, k: int, v: f64, s: GenerationSource, rate: f64) -> (f64, GenerationSource)
        decreases vf_mutators_len_spec(ms) - k
    {
        if k < 0 || k >= vf_mutators_len_spec(ms) { (v, s) }
        else {
            let m = vf_mutator_spec(ms, k);
            match m.sp_float(v, s, rate) {
                Some(x) => (x, m.sp_float_src(v, s, rate)),
                None => Generator::first_float(ms, k + 1, v, m.sp_float_src(v, s, rate), rate),
            }
        }
    }

//@fn src/generator/mutation.rs Generator::mutate_float
//@ret r
//@props C04 C09 C15
//@use MUTATE_SUBSTS
//@contract
    ensures
        // (a dispatcher may skip the mutators altogether at rate 0.0: nothing fires there anyway, so that is not the property's business)
        (r, *final(source)) == Generator::first_float(&self.mutators, 0, value, *old(source), self.mutation_rate)
            || (vf_rate_zero(self.mutation_rate) && r == value), // @C15
//@loop 1
            invariant_except_break
                result == value,
                Generator::first_float(&self.mutators, vf_k as int, value, *source, self.mutation_rate)
                    == Generator::first_float(&self.mutators, 0, value, *old(source), self.mutation_rate), // @C15
            invariant vf_k <= vf_mutators_len_spec(&self.mutators),
            ensures
                (result, *source) == Generator::first_float(&self.mutators, 0, value, *old(source), self.mutation_rate), // @C15
            decreases vf_mutators_len_spec(&self.mutators) - vf_k,
//@endfn

    pub open spec fn first_memo(ms: &VfMutators, k: int, v: usize, s: GenerationSource, rate: f64) -> (usize, GenerationSource)
        decreases vf_mutators_len_spec(ms) - k
    {
        if k < 0 || k >= vf_mutators_len_spec(ms) { (v, s) }
        else {
            let m = vf_mutator_spec(ms, k);
            match m.sp_memo(v, s, rate) {
                Some(x) => (x, m.sp_memo_src(v, s, rate)),
                None => Generator::first_memo(ms, k + 1, v, m.sp_memo_src(v, s, rate), rate),
            }
        }
    }

//@fn src/generator/mutation.rs Generator::mutate_memo_index
//@ret r
//@props C02 C09 C15
//@use MUTATE_SUBSTS
//@contract
    ensures
        // (a dispatcher may skip the mutators altogether at rate 0.0: nothing fires there anyway, so that is not the property's business)
        (r, *final(source)) == Generator::first_memo(&self.mutators, 0, index, *old(source), self.mutation_rate)
            || (vf_rate_zero(self.mutation_rate) && r == index), // @C15
//@loop 1
            invariant_except_break
                result == index,
                Generator::first_memo(&self.mutators, vf_k as int, index, *source, self.mutation_rate)
                    == Generator::first_memo(&self.mutators, 0, index, *old(source), self.mutation_rate), // @C15
            invariant vf_k <= vf_mutators_len_spec(&self.mutators),
            ensures
                (result, *source) == Generator::first_memo(&self.mutators, 0, index, *old(source), self.mutation_rate), // @C15
            decreases vf_mutators_len_spec(&self.mutators) - vf_k,
//@endfn

    pub open spec fn first_str(ms: &VfMutators, k: int, v: Seq<char>, s: GenerationSource, rate: f64) -> (Seq<char>, GenerationSource)
        decreases vf_mutators_len_spec(ms) - k
    {
        if k < 0 || k >= vf_mutators_len_spec(ms) { (v, s) }
        else {
            let m = vf_mutator_spec(ms, k);
            match m.sp_str(v, s, rate) {
                Some(x) => (x, m.sp_str_src(v, s, rate)),
                None => Generator::first_str(ms, k + 1, v, m.sp_str_src(v, s, rate), rate),
            }
        }
    }

//@fn src/generator/mutation.rs Generator::mutate_string
//@ret r
//@props C04 C11 C17 C09 C15
//@use MUTATE_SUBSTS
//@subst result.clone() => vf_string_clone(&result)
//@contract
    ensures
        // (a dispatcher may skip the mutators altogether at rate 0.0: nothing fires there anyway, so that is not the property's business)
        (r@, *final(source)) == Generator::first_str(&self.mutators, 0, value@, *old(source), self.mutation_rate)
            || (vf_rate_zero(self.mutation_rate) && r@ == value@), // @C15
        // at most ONE mutation is applied, so the per-mutator bounds carry over
        r@.len() <= 2 * value@.len() + 9, // @C11 @C04
        printable(value@) ==> printable(r@), // @C04 @C17
//@loop 1
            invariant_except_break
                result@ == value@,
                Generator::first_str(&self.mutators, vf_k as int, value@, *source, self.mutation_rate)
                    == Generator::first_str(&self.mutators, 0, value@, *old(source), self.mutation_rate), // @C15
            invariant
                vf_k <= vf_mutators_len_spec(&self.mutators),
            ensures
                (result@, *source) == Generator::first_str(&self.mutators, 0, value@, *old(source), self.mutation_rate), // @C15
                result@.len() <= 2 * value@.len() + 9,
                printable(value@) ==> printable(result@),
            decreases vf_mutators_len_spec(&self.mutators) - vf_k,
//@endfn

    pub open spec fn first_bytes(ms: &VfMutators, k: int, v: Seq<u8>, s: GenerationSource, rate: f64) -> (Seq<u8>, GenerationSource)
        decreases vf_mutators_len_spec(ms) - k
    {
        if k < 0 || k >= vf_mutators_len_spec(ms) { (v, s) }
        else {
            let m = vf_mutator_spec(ms, k);
            match m.sp_bytes(v, s, rate) {
                Some(x) => (x, m.sp_bytes_src(v, s, rate)),
                None => Generator::first_bytes(ms, k + 1, v, m.sp_bytes_src(v, s, rate), rate),
            }
        }
    }

//@fn src/generator/mutation.rs Generator::mutate_bytes
//@ret r
//@props C04 C11 C09 C15
//@use MUTATE_SUBSTS
//@subst result.clone() => vf_vec_clone(&result)
//@contract
    ensures
        // (a dispatcher may skip the mutators altogether at rate 0.0: nothing fires there anyway, so that is not the property's business)
        (r@, *final(source)) == Generator::first_bytes(&self.mutators, 0, value@, *old(source), self.mutation_rate)
            || (vf_rate_zero(self.mutation_rate) && r@ == value@), // @C15
        r@.len() <= 2 * value@.len() + 9, // @C11 @C04
//@loop 1
            invariant_except_break
                result@ == value@,
                Generator::first_bytes(&self.mutators, vf_k as int, value@, *source, self.mutation_rate)
                    == Generator::first_bytes(&self.mutators, 0, value@, *old(source), self.mutation_rate), // @C15
            invariant
                vf_k <= vf_mutators_len_spec(&self.mutators),
            ensures
                (result@, *source) == Generator::first_bytes(&self.mutators, 0, value@, *old(source), self.mutation_rate), // @C15
                result@.len() <= 2 * value@.len() + 9,
            decreases vf_mutators_len_spec(&self.mutators) - vf_k,
//@endfn

//@fn src/generator/mutation.rs Generator::create_snapshot
//@ret r
//@props C04 C06 C09
//@contract
    ensures
        r.output_len == self.output@.len(), // @C06
        r.stack_depth == self.view().len(),
//@endfn

//@fn src/generator/mutation.rs Generator::post_process_emission
//@props C01 C04 C06 C10 C15 C09
//@use MUTATE_SUBSTS
//@subst self.state.stack.inner[snapshot.stack_depth..].to_vec() => vf_stack_tail(&self.state.stack.inner, snapshot.stack_depth)
//@subst self.output[snapshot.output_len..].to_vec() => vf_bytes_tail(&self.output, snapshot.output_len)
//@contract
    requires
        snapshot.output_len <= old(self).output@.len(),
    ensures
        // safe mode (mutators built with the generator's flag): nothing is rewritten
        !old(self).unsafe_mutations && old(self).mutators_consistent() ==> final(self).output@ == old(self).output@, // @C01 @C15
        // any mode: the simulation is untouched, and the output is unchanged or the current emission was
        // replaced by one complete value-pushing opcode; bytes before the emission never change
        final(self).state == old(self).state && final(self).same_config(old(self)),
        final(self).output@ == old(self).output@
            || exists|rep: Seq<u8>, k: int| final(self).output@ == old(self).output@.take(snapshot.output_len as int) + rep
                && #[trigger] replacement_ok(rep, k), // @C04 @C06 @C10
//@loop 2
            invariant
                vf_k <= vf_mutators_len_spec(&self.mutators),
                snapshot.output_len <= self.output@.len(),
                snapshot.output_len <= old(self).output@.len(),
                self.state == old(self).state && self.same_config(old(self)),
                !old(self).unsafe_mutations && old(self).mutators_consistent() ==> self.output@ == old(self).output@,
                self.output@ == old(self).output@
                    || exists|rep: Seq<u8>, k: int| self.output@ == old(self).output@.take(snapshot.output_len as int) + rep
                        && #[trigger] replacement_ok(rep, k),
            decreases vf_mutators_len_spec(&self.mutators) - vf_k,
//@endfn

#[verifier::external_body]
pub fn get_random_module(&self, source: &mut GenerationSource) -> (r: Result<VfText, VfError>)
    ensures r is Ok, vf_line_parts(r->Ok_0.bytes()) >= 2, r->Ok_0.bytes().len() >= 2, text_ok(ArgClass::LinePairNl, r->Ok_0.bytes())
{ unimplemented!() }

    pub open spec fn bytes_family(op: OpcodeKind) -> bool {
        op == OpcodeKind::BinString || op == OpcodeKind::ShortBinString || op == OpcodeKind::ShortBinBytes
        || op == OpcodeKind::BinBytes || op == OpcodeKind::BinBytes8 || op == OpcodeKind::ByteArray8
    }

//@arms src/generator/emission.rs Generator::emit_bytes opcode
//@ret res
//@ghost Ghost(r): Ghost<RefState>
//@props C01 C04 C05 C10 C11 C17 C09
//@sigsubst Result<()> => Result<(), VfError>
//@subst (0..len).map(|_| source.gen_u8()).collect() => vf_gen_u8_vec(source, len)
//@rewrite R14? process_stack_ops self.process_stack_ops($ARGS, Ghost(r), Ghost(RefArg { idx: 0 }))
//@rewrite R4
//@contract
    requires
        old(self).rel(r), contig(r), !old(self).unsafe_mutations,
        Generator::bytes_family(opcode),
        ref_proto(opcode) <= ver_num(old(self).state.version),
    ensures
        res is Ok,
        exists|chunk: Seq<u8>| #[trigger] final(self).emit_post(old(self), r, opcode, opcode, RefArg { idx: 0 }, chunk),
//@before 1 Ok(())
        proof {
            let chunk = self.output@.subrange(old(self).output@.len() as int, self.output@.len() as int);
            assert(self.output@ =~= old(self).output@ + chunk);
            assert(chunk.len() >= 1 && chunk[0] == ref_code(opcode) as u8); // @C11 @C04 @C12? @C17
            assert(enc_ok(opcode, chunk)); // @C04 @C11 @C17
            assert(self.rel(ref_step(opcode, RefArg { idx: 0 }, r))); // @C17
            assert(self.emit_post(old(self), r, opcode, opcode, RefArg { idx: 0 }, chunk));
        }
//@arm _
//@unreachable
//@endfn

    pub open spec fn string_family(op: OpcodeKind) -> bool {
        op == OpcodeKind::String || op == OpcodeKind::Unicode || op == OpcodeKind::ShortBinUnicode
        || op == OpcodeKind::BinUnicode || op == OpcodeKind::BinUnicode8
    }

//@arms src/generator/emission.rs Generator::emit_string opcode
//@ret res
//@ghost Ghost(r): Ghost<RefState>
//@props C01 C04 C05 C10 C11 C17 C09
//@sigsubst Result<()> => Result<(), VfError>
//@subst (0..len).map(|_| source.gen_ascii_char()).collect() => vf_gen_ascii_string(source, len)
//@rewrite R14? process_stack_ops self.process_stack_ops($ARGS, Ghost(r), Ghost(RefArg { idx: 0 }))
//@substall? s.into_bytes() => vf_string_into_bytes(s)
//@rewrite R4
//@prelude
        let ghost mut gtext: Seq<u8> = Seq::empty();
//@contract
    requires
        old(self).rel(r), contig(r), !old(self).unsafe_mutations,
        Generator::string_family(opcode),
        ref_proto(opcode) <= ver_num(old(self).state.version),
    ensures
        res is Ok,
        exists|chunk: Seq<u8>| #[trigger] final(self).emit_post(old(self), r, opcode, opcode, RefArg { idx: 0 }, chunk),
//@before 1 Ok(())
        proof {
            let chunk = self.output@.subrange(old(self).output@.len() as int, self.output@.len() as int);
            assert(self.output@ =~= old(self).output@ + chunk);
            assert(chunk.len() >= 1 && chunk[0] == ref_code(opcode) as u8); // @C11 @C04 @C12? @C17
            if opcode == OpcodeKind::String || opcode == OpcodeKind::Unicode { assert(chunk.subrange(1, chunk.len() as int) =~= gtext); }
            assert(enc_ok(opcode, chunk)); // @C04 @C11 @C17
            assert(self.rel(ref_step(opcode, RefArg { idx: 0 }, r))); // @C17
            assert(self.emit_post(old(self), r, opcode, opcode, RefArg { idx: 0 }, chunk));
        }
//@arm String
//@subst let escaped = s ... ; => let escaped = vf_escape_py(&s);
//@subst format!("'{}'\n", escaped) => vf_fmt_quoted_nl(&escaped)
//@after 1 self.output.extend_from_slice(&arg_bytes);
                proof { gtext = arg_bytes@; assert(self.output@.subrange(old(self).output@.len() as int + 1, self.output@.len() as int) =~= gtext); }
//@arm Unicode
//@subst s.replace('\\', "\\\\") => vf_escape_backslash(&s)
//@subst format!("{}\n", escaped) => vf_fmt_line_nl(&escaped)
//@after 1 self.output.extend_from_slice(&arg_bytes);
                proof { gtext = arg_bytes@; assert(self.output@.subrange(old(self).output@.len() as int + 1, self.output@.len() as int) =~= gtext); }
//@arm _
//@unreachable
//@endfn

//@fn src/generator/emission.rs Generator::emit_global
//@ret res
//@ghost Ghost(r): Ghost<RefState>
//@props C01 C04 C05 C11 C17 C09
//@sigsubst Result<()> => Result<(), VfError>
//@subst module.as_bytes().to_vec() => vf_to_vec(module.as_bytes())
//@rewrite R14 process_stack_ops self.process_stack_ops($ARGS, Ghost(r), Ghost(RefArg { idx: 0 }))
//@contract
    requires
        old(self).rel(r), contig(r), !old(self).unsafe_mutations,
    ensures
        res is Ok,
        exists|chunk: Seq<u8>| #[trigger] final(self).emit_post(old(self), r, OpcodeKind::Global, OpcodeKind::Global, RefArg { idx: 0 }, chunk),
//@before 1 Ok(())
        proof {
            let chunk = self.output@.subrange(old(self).output@.len() as int, self.output@.len() as int);
            assert(self.output@ =~= old(self).output@ + chunk);
            assert(chunk.subrange(1, chunk.len() as int) =~= arg_bytes@);
            assert(enc_ok(OpcodeKind::Global, chunk)); // @C04 @C11 @C17
            assert(self.emit_post(old(self), r, OpcodeKind::Global, OpcodeKind::Global, RefArg { idx: 0 }, chunk));
        }
//@endfn

//@fn src/generator/emission.rs Generator::emit_int
//@ret res
//@ghost Ghost(r): Ghost<RefState>
//@props C01 C04 C05 C11 C17 C09
//@sigsubst Result<()> => Result<(), VfError>
//@subst self.state.version as u8 => vf_version_u8(self.state.version)
//@subst PICKLE_OPCODES.get(&version) => vf_pickle_opcodes(version)
//@substall eyre!( ... ) => VfError { code: 1 }
//@subst valid_kinds .iter() .cloned() .filter( ... ) .collect() => vf_filter_int_like(valid_kinds)
//@subst format!("{int}\n") => vf_fmt_i32_nl(int)
//@subst format!("{int}L\n") => vf_fmt_i32_l_nl(int)
//@subst int.to_le_bytes().to_vec() => vf_arr4_to_vec(vf_i32_to_le_bytes(int))
//@substall int.to_le_bytes() => vf_i32_to_le_bytes(int)
//@subst size.to_le_bytes() => vf_u32_to_le_bytes(size)
//@subst (int & 0xFFFF).to_le_bytes() => vf_i32_to_le_bytes(int & 0xFFFF)
//@subst bytes[..2].to_vec() => vf_first2_to_vec(&bytes)
//@rewrite R17 int vf_int
//@rewrite R14 process_stack_ops self.process_stack_ops($ARGS, Ghost(r), Ghost(RefArg { idx: 0 }))
//@contract
    requires
        old(self).rel(r), contig(r), !old(self).unsafe_mutations,
    ensures
        res is Ok,
        exists|op2: OpcodeKind, chunk: Seq<u8>| Generator::int_like(op2)
            && #[trigger] final(self).emit_post(old(self), r, op2, op2, RefArg { idx: 0 }, chunk),
//@after 1 let chosen = int_like[idx];
        proof {
            assert(valid_kinds@.contains(chosen));
            let j = choose|j: int| 0 <= j < valid_kinds@.len() && valid_kinds@[j] == chosen;
            assert(ref_proto(valid_kinds@[j]) <= version);
        }
//@before 1 Ok(())
        proof {
            let chunk = self.output@.subrange(old(self).output@.len() as int, self.output@.len() as int);
            assert(self.output@ =~= old(self).output@ + chunk);
            assert(chunk.subrange(1, chunk.len() as int) =~= arg@);
            assert(chunk.len() == 1 + arg@.len());
            assert(enc_ok(chosen, chunk)); // @C04 @C11 @C17
            assert(ref_proto(chosen) <= ver_num(old(self).state.version)); // @C05
            assert(self.emit_post(old(self), r, chosen, chosen, RefArg { idx: 0 }, chunk));
        }
//@endfn

//@define DELEG_END
//@before 1 self.post_process_emission(
        let ghost g_mid = *self;
//@before 1 Ok(())
        proof {
            let chunk = choose|chunk: Seq<u8>| g_mid.emit_post(old(self), r, opcode, opcode, RefArg { idx: 0 }, chunk);
            assert(self.emit_post(old(self), r, opcode, opcode, RefArg { idx: 0 }, chunk));
        }
//@enddef

//@define EMIT_CONTRACT
//@contract
    requires
        old(self).emit_pre(opcode, r),
    ensures
        res is Ok,
        exists|op2: OpcodeKind, a: RefArg, chunk: Seq<u8>| #[trigger] final(self).emit_post(old(self), r, opcode, op2, a, chunk),
//@enddef

//@arms src/generator/emission.rs Generator::emit_and_process opcode
//@ret res
//@ghost Ghost(r): Ghost<RefState>
//@props C01 C02 C03 C04 C05 C07 C10 C11 C17 C09
//@sigsubst Result<()> => Result<(), VfError>
//@prelude
        let ghost mut gtext: Seq<u8> = Seq::empty();
//@use EMIT_CONTRACT
//@arm Int | Long | Long1 | Long4 | BinInt | BinInt1 | BinInt2
//@rewrite R14 emit_int self.emit_int($ARGS, Ghost(r))
//@before 1 self.post_process_emission(
        let ghost g_mid = *self;
//@before 1 Ok(())
        proof {
            let (op2, chunk) = choose|op2: OpcodeKind, chunk: Seq<u8>| Generator::int_like(op2) && g_mid.emit_post(old(self), r, op2, op2, RefArg { idx: 0 }, chunk);
            assert(self.emit_post(old(self), r, opcode, op2, RefArg { idx: 0 }, chunk));
        }
//@arm Float
//@subst format!("{}\n", value) => vf_fmt_f64_nl(value)
//@rewrite R14 process_stack_ops self.process_stack_ops($ARGS, Ghost(r), Ghost(RefArg { idx: 0 }))
//@after 1 self.output.extend_from_slice(arg_bytes);
                    proof { gtext = arg_bytes@; assert(self.output@.subrange(old(self).output@.len() as int + 1, self.output@.len() as int) =~= gtext);
                            assert(self.output@.len() == old(self).output@.len() + 1 + gtext.len()); }
//@before 1 Ok(())
        proof {
            let chunk = self.output@.subrange(old(self).output@.len() as int, self.output@.len() as int);
            assert(self.output@ =~= old(self).output@ + chunk);
            assert(chunk.subrange(1, chunk.len() as int) =~= gtext);
            assert(enc_ok(opcode, chunk)); // @C04 @C11 @C17
            assert(chunk.len() >= 1 && chunk[0] == ref_code(opcode) as u8); // @C04 @C11 @C12? @C17
            assert(self.rel(ref_step(opcode, RefArg { idx: 0 }, r))); // @C17
            assert(self.emit_post(old(self), r, opcode, opcode, RefArg { idx: 0 }, chunk));
        }
//@arm BinFloat
//@subst value.to_be_bytes() => vf_f64_to_be_bytes(value)
//@rewrite R14 process_stack_ops self.process_stack_ops($ARGS, Ghost(r), Ghost(RefArg { idx: 0 }))
//@before 1 Ok(())
        proof {
            let chunk = self.output@.subrange(old(self).output@.len() as int, self.output@.len() as int);
            assert(self.output@ =~= old(self).output@ + chunk);
            assert(chunk.len() >= 1 && chunk[0] == ref_code(opcode) as u8); // @C04 @C11 @C12? @C17
            assert(self.rel(ref_step(opcode, RefArg { idx: 0 }, r))); // @C17
            assert(self.emit_post(old(self), r, opcode, opcode, RefArg { idx: 0 }, chunk));
        }
//@arm String | Unicode | ShortBinUnicode | BinUnicode | BinUnicode8
//@rewrite R14 emit_string self.emit_string($ARGS, Ghost(r))
//@use DELEG_END
//@arm BinString | ShortBinString | ShortBinBytes | BinBytes | BinBytes8 | ByteArray8
//@rewrite R14 emit_bytes self.emit_bytes($ARGS, Ghost(r))
//@use DELEG_END
//@arm Global
//@rewrite R14 emit_global self.emit_global($ARGS, Ghost(r))
//@before 1 self.post_process_emission(
        let ghost g_mid = *self;
//@before 1 Ok(())
        proof {
            let chunk = choose|chunk: Seq<u8>| g_mid.emit_post(old(self), r, OpcodeKind::Global, OpcodeKind::Global, RefArg { idx: 0 }, chunk);
            assert(self.emit_post(old(self), r, opcode, opcode, RefArg { idx: 0 }, chunk));
        }
//@arm Put
//@subst format!("{}\n", index) => vf_fmt_usize_nl(index)
//@rewrite R14 process_stack_ops self.process_stack_ops($ARGS, Ghost(r), Ghost(RefArg { idx: index as int }))
//@before 1 self.process_stack_ops(
                let ghost out1 = self.output@;
//@after 1 self.output.extend_from_slice(arg_bytes);
                    proof { gtext = arg_bytes@; assert(self.output@.subrange(old(self).output@.len() as int + 1, self.output@.len() as int) =~= gtext);
                            assert(self.output@.len() == old(self).output@.len() + 1 + gtext.len()); }
//@before 1 Ok(())
        proof {
            let ga = RefArg { idx: old(self).state.memo@.len() as int };
            let chunk = self.output@.subrange(old(self).output@.len() as int, self.output@.len() as int);
            assert(self.output@ =~= old(self).output@ + chunk);
            assert(chunk.subrange(1, chunk.len() as int) =~= gtext);
            assert(enc_ok(opcode, chunk)); // @C04 @C11 @C17
            assert(chunk.len() >= 1 && chunk[0] == ref_code(opcode) as u8); // @C04 @C11 @C12? @C17
            assert(ref_pre(opcode, ga, r)); // @C02 @C01
            assert(self.rel(ref_step(opcode, ga, r))); // @C17 @C02
            assert(self.emit_post(old(self), r, opcode, opcode, ga, chunk));
        }
//@arm BinPut
//@rewrite R14 process_stack_ops self.process_stack_ops($ARGS, Ghost(r), Ghost(RefArg { idx: index as int }))
//@before 1 self.process_stack_ops(
                let ghost out1 = self.output@;
//@before 1 Ok(())
        proof {
            let ga = RefArg { idx: old(self).state.memo@.len() as int };
            let chunk = self.output@.subrange(old(self).output@.len() as int, self.output@.len() as int);
            assert(self.output@ =~= old(self).output@ + chunk);
            assert(chunk.len() >= 1 && chunk[0] == ref_code(opcode) as u8); // @C04 @C11 @C12? @C17
            assert(ref_pre(opcode, ga, r)); // @C02 @C01
            assert(self.rel(ref_step(opcode, ga, r))); // @C17 @C02
            assert(self.emit_post(old(self), r, opcode, opcode, ga, chunk));
        }
//@arm LongBinPut
//@substall index.to_le_bytes() => vf_u32_to_le_bytes(index)
//@rewrite R14 process_stack_ops self.process_stack_ops($ARGS, Ghost(r), Ghost(RefArg { idx: index as int }))
//@before 1 self.process_stack_ops(
                let ghost out1 = self.output@;
//@before 1 Ok(())
        proof {
            let ga = RefArg { idx: old(self).state.memo@.len() as int };
            let chunk = self.output@.subrange(old(self).output@.len() as int, self.output@.len() as int);
            assert(self.output@ =~= old(self).output@ + chunk);
            assert(chunk.len() >= 1 && chunk[0] == ref_code(opcode) as u8); // @C04 @C11 @C12? @C17
            assert(ref_pre(opcode, ga, r)); // @C02 @C01
            assert(self.rel(ref_step(opcode, ga, r))); // @C17 @C02
            assert(self.emit_post(old(self), r, opcode, opcode, ga, chunk));
        }
//@arm Get
//@subst self.state.memo.keys().copied().collect() => vf_keys(&self.state.memo)
//@subst? keys.sort_unstable() => vf_sort_unstable(&mut keys)
//@subst format!("{}\n", index) => vf_fmt_usize_nl(index)
//@rewrite R14 process_stack_ops self.process_stack_ops($ARGS, Ghost(r), Ghost(RefArg { idx: index as int }))
//@prelude
        let ghost mut gidx: int = 0;
        let ghost mut gk: usize = 0;
        let ghost mut gs: GenerationSource = *source;
//@before 1 if !keys.is_empty()
                proof {
                    assert(keys@.len() > 0);
                    // C07: whatever order the hash map enumerated its keys in, the index is chosen from the canonical sequence
                    assert(is_canon(keys@, self.state.memo@.dom())); // @C07?
                    lemma_canon_unique(keys@, canon(self.state.memo@.dom()), self.state.memo@.dom());
                    assert(keys@ =~= canon(self.state.memo@.dom())); // @C07?
                }
//@after 1 let index = keys[
                    proof { assert(keys@.contains(index)); gk = index; gs = *source; }
//@before 1 self.output.push(
                    proof {
                        // C15 at the call site: the memo index that gets written went through the dispatcher - it is the dispatcher's
                        // answer for the picked key, or (safe mode only) the picked key because that answer is no defined index
                        let fm = Generator::first_memo(&self.mutators, 0, gk, gs, self.mutation_rate).0;
                        assert(index == fm || (!self.unsafe_mutations && index == gk && !self.state.memo@.dom().contains(fm))
                            || (vf_rate_zero(self.mutation_rate) && index == gk)); // @C15
                    }
//@before 1 self.process_stack_ops(
                    proof { gidx = index as int; }
//@after 1 self.output.extend_from_slice(arg_bytes);
                    proof { gtext = arg_bytes@; assert(self.output@.subrange(old(self).output@.len() as int + 1, self.output@.len() as int) =~= gtext);
                            assert(self.output@.len() == old(self).output@.len() + 1 + gtext.len()); }
//@before 1 Ok(())
        proof {
            let chunk = self.output@.subrange(old(self).output@.len() as int, self.output@.len() as int);
            assert(self.output@ =~= old(self).output@ + chunk);
            assert(chunk.subrange(1, chunk.len() as int) =~= gtext);
            assert(enc_ok(opcode, chunk)); // @C04 @C11 @C17
            assert(chunk.len() >= 1 && chunk[0] == ref_code(opcode) as u8); // @C04 @C11 @C12? @C17
            assert(self.rel(ref_step(opcode, RefArg { idx: gidx }, r))); // @C17 @C02 @C01
            assert(self.emit_post(old(self), r, opcode, opcode, RefArg { idx: gidx }, chunk));
        }
//@arm BinGet
//@subst self.state.memo.keys().filter(|&&k| k < 256).copied().collect() => vf_keys_below(&self.state.memo, 256)
//@subst? valid_indices.sort_unstable() => vf_sort_unstable(&mut valid_indices)
//@rewrite R14 process_stack_ops self.process_stack_ops($ARGS, Ghost(r), Ghost(RefArg { idx: index as int }))
//@prelude
        let ghost mut gidx: int = 0;
        let ghost mut gk: usize = 0;
        let ghost mut gs: GenerationSource = *source;
//@before 1 vf_sort_unstable(&mut valid_indices)
                proof { assert(r.memo.dom().contains(0)); assert(self.state.memo@.dom().contains(0usize)); assert(valid_indices@.contains(0usize)); }
//@before 1 if !valid_indices.is_empty()
                proof {
                    assert(valid_indices@.contains(0usize)); assert(valid_indices@.len() > 0);
                    let ghost small = self.state.memo@.dom().filter(|k: usize| k < 256);
                    assert(is_canon(valid_indices@, small)); // @C07?
                    lemma_canon_unique(valid_indices@, canon(small), small);
                    assert(valid_indices@ =~= canon(small)); // @C07?
                }
//@after 1 let index = valid_indices[
                    proof { assert(valid_indices@.contains(index)); gk = index; gs = *source; }
//@before 1 self.output.push(
                    proof {
                        // C15 at the call site (the dispatcher's answer is clamped to the one-byte argument of BINGET)
                        let fm0 = Generator::first_memo(&self.mutators, 0, gk, gs, self.mutation_rate).0;
                        let fm = if fm0 < 255 { fm0 } else { 255usize };
                        assert(index == fm || (!self.unsafe_mutations && index == gk && !(fm < 256 && self.state.memo@.dom().contains(fm)))
                            || (vf_rate_zero(self.mutation_rate) && index == gk)); // @C15
                    }
//@before 1 self.process_stack_ops(
                    proof { gidx = index as int; }
//@before 1 Ok(())
        proof {
            let chunk = self.output@.subrange(old(self).output@.len() as int, self.output@.len() as int);
            assert(self.output@ =~= old(self).output@ + chunk);
            assert(chunk.len() >= 1 && chunk[0] == ref_code(opcode) as u8); // @C04 @C11 @C12? @C17
            assert(self.rel(ref_step(opcode, RefArg { idx: gidx }, r))); // @C17 @C02 @C01
            assert(self.emit_post(old(self), r, opcode, opcode, RefArg { idx: gidx }, chunk));
        }
//@arm LongBinGet
//@subst self.state.memo.keys().copied().collect() => vf_keys(&self.state.memo)
//@subst? keys.sort_unstable() => vf_sort_unstable(&mut keys)
//@subst (index as u32).to_le_bytes() => vf_u32_to_le_bytes(index as u32)
//@rewrite R14 process_stack_ops self.process_stack_ops($ARGS, Ghost(r), Ghost(RefArg { idx: index as int }))
//@prelude
        let ghost mut gidx: int = 0;
        let ghost mut gk: usize = 0;
        let ghost mut gs: GenerationSource = *source;
//@before 1 if !keys.is_empty()
                proof {
                    assert(keys@.len() > 0);
                    // C07: whatever order the hash map enumerated its keys in, the index is chosen from the canonical sequence
                    assert(is_canon(keys@, self.state.memo@.dom())); // @C07?
                    lemma_canon_unique(keys@, canon(self.state.memo@.dom()), self.state.memo@.dom());
                    assert(keys@ =~= canon(self.state.memo@.dom())); // @C07?
                }
//@after 1 let index = keys[
                    proof { assert(keys@.contains(index)); gk = index; gs = *source; }
//@before 1 self.output.push(
                    proof {
                        // C15 at the call site: the memo index that gets written went through the dispatcher - it is the dispatcher's
                        // answer for the picked key, or (safe mode only) the picked key because that answer is no defined index
                        let fm = Generator::first_memo(&self.mutators, 0, gk, gs, self.mutation_rate).0;
                        assert(index == fm || (!self.unsafe_mutations && index == gk && !self.state.memo@.dom().contains(fm))
                            || (vf_rate_zero(self.mutation_rate) && index == gk)); // @C15
                    }
//@before 1 self.process_stack_ops(
                    proof { gidx = index as int; }
//@before 1 Ok(())
        proof {
            let chunk = self.output@.subrange(old(self).output@.len() as int, self.output@.len() as int);
            assert(self.output@ =~= old(self).output@ + chunk);
            assert(chunk.len() >= 1 && chunk[0] == ref_code(opcode) as u8); // @C04 @C11 @C12? @C17
            assert(self.rel(ref_step(opcode, RefArg { idx: gidx }, r))); // @C17 @C02 @C01
            assert(self.emit_post(old(self), r, opcode, opcode, RefArg { idx: gidx }, chunk));
        }
//@arm Ext1
//@subst debug_assert!(code >= 1, "EXT1 code out of range: {}", code) => assert(code >= 1) /* @C04 */
//@rewrite R14 process_stack_ops self.process_stack_ops($ARGS, Ghost(r), Ghost(RefArg { idx: 0 }))
//@before 1 Ok(())
        proof {
            let chunk = self.output@.subrange(old(self).output@.len() as int, self.output@.len() as int);
            assert(self.output@ =~= old(self).output@ + chunk);
            assert(chunk.len() >= 1 && chunk[0] == ref_code(opcode) as u8); // @C04 @C11 @C12? @C17
            assert(self.rel(ref_step(opcode, RefArg { idx: 0 }, r))); // @C17
            assert(self.emit_post(old(self), r, opcode, opcode, RefArg { idx: 0 }, chunk));
        }
//@arm Ext2
//@subst debug_assert!(code >= 1, "EXT2 code out of range: {}", code) => assert(code >= 1) /* @C04 */
//@substall code.to_le_bytes() => vf_u16_to_le_bytes(code)
//@rewrite R14 process_stack_ops self.process_stack_ops($ARGS, Ghost(r), Ghost(RefArg { idx: 0 }))
//@before 1 Ok(())
        proof {
            let chunk = self.output@.subrange(old(self).output@.len() as int, self.output@.len() as int);
            assert(self.output@ =~= old(self).output@ + chunk);
            assert(chunk.len() >= 1 && chunk[0] == ref_code(opcode) as u8); // @C04 @C11 @C12? @C17
            assert(self.rel(ref_step(opcode, RefArg { idx: 0 }, r))); // @C17
            assert(self.emit_post(old(self), r, opcode, opcode, RefArg { idx: 0 }, chunk));
        }
//@arm Ext4
//@subst debug_assert!(code > 0, "EXT4 code must be > 0, got {}", code) => assert(0 < code <= 0x7fff_ffff) /* @C04 */
//@substall code.to_le_bytes() => vf_u32_to_le_bytes(code)
//@rewrite R14 process_stack_ops self.process_stack_ops($ARGS, Ghost(r), Ghost(RefArg { idx: 0 }))
//@before 1 Ok(())
        proof {
            let chunk = self.output@.subrange(old(self).output@.len() as int, self.output@.len() as int);
            assert(self.output@ =~= old(self).output@ + chunk);
            assert(chunk.len() >= 1 && chunk[0] == ref_code(opcode) as u8); // @C04 @C11 @C12? @C17
            assert(self.rel(ref_step(opcode, RefArg { idx: 0 }, r))); // @C17
            assert(self.emit_post(old(self), r, opcode, opcode, RefArg { idx: 0 }, chunk));
        }
//@arm PersID
//@subst format!("pid_{}\n", source.gen_u32()) => vf_fmt_pid_nl(source.gen_u32())
//@rewrite R14 process_stack_ops self.process_stack_ops($ARGS, Ghost(r), Ghost(RefArg { idx: 0 }))
//@after 1 self.output.extend_from_slice(arg_bytes);
                    proof { gtext = arg_bytes@; assert(self.output@.subrange(old(self).output@.len() as int + 1, self.output@.len() as int) =~= gtext);
                            assert(self.output@.len() == old(self).output@.len() + 1 + gtext.len()); }
//@before 1 Ok(())
        proof {
            let chunk = self.output@.subrange(old(self).output@.len() as int, self.output@.len() as int);
            assert(self.output@ =~= old(self).output@ + chunk);
            assert(chunk.subrange(1, chunk.len() as int) =~= gtext);
            assert(enc_ok(opcode, chunk)); // @C04 @C11 @C17
            assert(chunk.len() >= 1 && chunk[0] == ref_code(opcode) as u8); // @C04 @C11 @C12? @C17
            assert(self.rel(ref_step(opcode, RefArg { idx: 0 }, r))); // @C17
            assert(self.emit_post(old(self), r, opcode, opcode, RefArg { idx: 0 }, chunk));
        }
//@arm Inst
//@rewrite R14 process_stack_ops self.process_stack_ops($ARGS, Ghost(r), Ghost(RefArg { idx: 0 }))
//@after 1 self.output.extend_from_slice(arg_bytes);
                    proof { gtext = arg_bytes@; assert(self.output@.subrange(old(self).output@.len() as int + 1, self.output@.len() as int) =~= gtext);
                            assert(self.output@.len() == old(self).output@.len() + 1 + gtext.len()); }
//@before 1 Ok(())
        proof {
            let chunk = self.output@.subrange(old(self).output@.len() as int, self.output@.len() as int);
            assert(self.output@ =~= old(self).output@ + chunk);
            assert(chunk.subrange(1, chunk.len() as int) =~= gtext);
            assert(enc_ok(opcode, chunk)); // @C04 @C11 @C17
            assert(chunk.len() >= 1 && chunk[0] == ref_code(opcode) as u8); // @C04 @C11 @C12? @C17
            assert(self.rel(ref_step(opcode, RefArg { idx: 0 }, r))); // @C17
            assert(self.emit_post(old(self), r, opcode, opcode, RefArg { idx: 0 }, chunk));
        }
//@arm Frame
//@unreachable
//@subst unreachable!("Frame should not be emitted during generation") => vf_unreachable()
//@arm _
//@rewrite R14 emit_opcode self.emit_opcode($1, Ghost(r))
//@before 1 Ok(())
        proof {
            let a0 = RefArg { idx: 0 };
            assert(self.output@ =~= old(self).output@ + seq![ref_code(opcode) as u8]);
            assert(opcode != OpcodeKind::Proto);
            assert(old(self).flags_ok(opcode));
            assert(contig(ref_step(opcode, a0, r)));
            assert(self.rel(ref_step(opcode, a0, r)));
            assert(self.emit_post(old(self), r, opcode, opcode, a0, seq![ref_code(opcode) as u8]));
        }
//@endfn

//@fn src/generator/emission.rs Generator::emit_proto
//@props C05 C06 C08 C09
//@subst self.state.version as u8 => vf_version_u8(self.state.version)
//@contract
    requires
        old(self).output@.len() == 0, // @C08 @C05 @C04 @C06 (the header is written into an empty buffer: otherwise the result is the previous output followed by a second stream)
        !old(self).state.proto_emitted, // @C08 @C05
    ensures
        ver_num(old(self).state.version) >= 2 ==> final(self).output@ == seq![0x80u8, ver_num(old(self).state.version) as u8] && final(self).state.proto_emitted, // @C05
        ver_num(old(self).state.version) < 2 ==> final(self).output@ == Seq::<u8>::empty() && !final(self).state.proto_emitted, // @C05
        final(self).state.stack == old(self).state.stack,
        final(self).state.memo == old(self).state.memo,
        final(self).state.version == old(self).state.version,
        final(self).same_config_but_proto(old(self)), // @C08
//@endfn

    pub open spec fn same_config_but_proto(&self, o: &Generator) -> bool {
        &&& self.state.version == o.state.version
        &&& self.seed == o.seed && self.bufsize == o.bufsize
        &&& self.min_opcodes == o.min_opcodes && self.max_opcodes == o.max_opcodes
        &&& self.mutators == o.mutators && self.mutation_rate == o.mutation_rate
        &&& self.unsafe_mutations == o.unsafe_mutations
        &&& self.allow_ext_opcodes == o.allow_ext_opcodes
        &&& self.allow_buffer_opcodes == o.allow_buffer_opcodes
    }

//@fn src/generator/mod.rs Generator::reset
//@props C08 C01 C02 C05 C06 C17 C09
//@contract
    ensures
        final(self).output@ == Seq::<u8>::empty(), // @C08
        final(self).view() == Seq::<Kind>::empty(), // @C08 @C01 @C17
        final(self).state.memo@ == Map::<usize, StackObjectRef>::empty(), // @C08 @C02 @C17
        !final(self).state.proto_emitted, // @C08 @C05
        final(self).same_config_but_proto(old(self)), // @C08
//@endfn

    pub open spec fn op_ok(&self, op: OpcodeKind) -> bool {
        ref_proto(op) <= ver_num(self.state.version) && self.flags_ok(op)
    }

//@fn src/generator/validation.rs Generator::get_valid_opcodes
//@ret res
//@ghost Ghost(r): Ghost<RefState>
//@props C01 C03 C05 C10 C11 C12 C09
//@subst self.state.version as u8 => vf_version_u8(self.state.version)
//@subst PICKLE_OPCODES.get(&version) => vf_pickle_opcodes(version)
//@rewrite R15
//@rewrite R14 can_emit self.can_emit($ARGS, Ghost(r))
//@contract
    requires
        self.rel(r),
    ensures
        forall|i: int| 0 <= i < res@.len() ==> self.guard_ok(#[trigger] res@[i], r) && ref_proto(res@[i]) <= ver_num(self.state.version), // @C05 @C01
        res@.len() > 0, // @C11
        // C12: no opcode of the protocol's vocabulary is dropped from the candidates in a state where its guard must say yes
        forall|op: OpcodeKind| ref_proto(op) <= ver_num(self.state.version) && self.witness(op) ==> #[trigger] res@.contains(op), // @C12?
//@loop 1
            invariant
                self.rel(r),
                vf_i <= all_opcodes@.len(),
                forall|op: OpcodeKind| ref_proto(op) <= ver_num(self.state.version) ==> #[trigger] all_opcodes@.contains(op),
                forall|j: int| 0 <= j < vf_i && self.witness(#[trigger] all_opcodes@[j]) ==> vf_out@.contains(all_opcodes@[j]), // @C12?
                forall|i: int| 0 <= i < all_opcodes@.len() ==> ref_proto(#[trigger] all_opcodes@[i]) <= ver_num(self.state.version),
                forall|i: int| 0 <= i < vf_out@.len() ==> self.guard_ok(#[trigger] vf_out@[i], r) && ref_proto(vf_out@[i]) <= ver_num(self.state.version),
                forall|j: int| 0 <= j < vf_i && all_opcodes@[j] == OpcodeKind::None ==> vf_out@.len() > 0,
            decreases all_opcodes@.len() - vf_i,
//@before 1 let op = all_opcodes[vf_i];
            let ghost out0 = vf_out@;
//@before 1 vf_i += 1;
            proof {
                assert(forall|k: int| 0 <= k < out0.len() ==> vf_out@[k] == out0[k]);
                assert forall|j: int| 0 <= j < vf_i + 1 && self.witness(#[trigger] all_opcodes@[j]) implies vf_out@.contains(all_opcodes@[j]) by {
                    if j < vf_i {
                        let k = choose|k: int| 0 <= k < out0.len() && out0[k] == all_opcodes@[j];
                        assert(vf_out@[k] == all_opcodes@[j]);
                    } else {
                        assert(vf_out@[vf_out@.len() - 1] == op);
                    }
                }
            }
//@before 2 vf_out
        proof {
            assert forall|op: OpcodeKind| ref_proto(op) <= ver_num(self.state.version) && self.witness(op) implies #[trigger] vf_out@.contains(op) by {
                assert(all_opcodes@.contains(op));
                let j = choose|j: int| 0 <= j < all_opcodes@.len() && all_opcodes@[j] == op;
                assert(self.witness(all_opcodes@[j]));
            }
        }
//@endfn

//@fn src/generator/validation.rs Generator::weighted_choice
//@ret res
//@props C01 C11 C12 C09
//@contract
    ensures
        opcodes@.len() > 0 ==> opcodes@.contains(res),
        // C12: the alternative taken is exactly the one an index draw over the WHOLE candidate list selected (choose_index(len) or
        // the equivalent gen_range(0, len); both are onto in fuzzer mode: u9_arb_choose_index_onto / u9_arb_gen_range_onto),
        // so every candidate can be chosen.  Which of the two draws is used is not the property's business.
        opcodes@.len() > 0 ==> res == opcodes@[old(source).draw_index(opcodes.len()) as int]
            || res == opcodes@[old(source).draw_range(0, opcodes.len()) as int], // @C12?
//@endfn

    /// every body chunk is non-empty and starts with the byte of the opcode the trace records for it
    pub open spec fn body_wf(chunks: Seq<Seq<u8>>, t: Trace) -> bool {
        chunks.len() == t.len()
        && forall|i: int| 0 <= i < chunks.len() ==> (#[trigger] chunks[i]).len() >= 1 && chunks[i][0] == ref_code(t[i].0) as u8
            && enc_ok(t[i].0, chunks[i])
    }

    /// header bytes: PROTO v for protocol >= 2, nothing otherwise; then 9 reserved FRAME bytes if framed
    pub open spec fn hdr_len(v: int, framed: bool) -> int {
        (if v >= 2 { 2int } else { 0int }) + (if framed { 9int } else { 0int })
    }

    /// the statement proved about one generation call without unsafe mutations
    pub open spec fn gen_post(&self, o: &Generator, out: Seq<u8>, nbody: int, framed: bool, t: Trace, tail: Trace, chunks: Seq<Seq<u8>>) -> bool {
        let v = ver_num(o.state.version);
        let a0 = RefArg { idx: 0 };
        let h = Generator::hdr_len(v, framed);
        &&& out == self.output@
        // C01 C02 C03: the whole opcode sequence is accepted by the reference machine, STOP finds one object
        &&& ref_run_ok(empty_state(), (t + tail).push((OpcodeKind::Stop, a0)))
        // C05 C06 C10: every body opcode is in the protocol's vocabulary, respects the opt-in flags, is no FRAME/PROTO/STOP
        &&& forall|i: int| 0 <= i < t.len() ==> o.op_ok(#[trigger] t[i].0)
        &&& forall|i: int| 0 <= i < tail.len() ==> Generator::tail_op(#[trigger] tail[i].0, o.state.version)
        // C11: opcode-count knobs
        &&& t.len() == nbody && o.min_opcodes <= nbody
        // (the statement says min <= T <= max; today's code draws T < max, which is not the property's business)
        &&& (o.max_opcodes > o.min_opcodes ==> nbody <= o.max_opcodes) && (o.max_opcodes <= o.min_opcodes ==> nbody == o.min_opcodes)
        &&& tail.len() <= 2 * nbody + 1
        // C05: header
        &&& (v >= 2 ==> out.len() >= 2 && out[0] == 0x80 && out[1] == v)
        // C06: FRAME only for protocol >= 4, directly after PROTO, spanning exactly the rest
        &&& (framed ==> v >= 4 && out.len() >= 11 && out[2] == 0x95
                && vstd::bytes::spec_u64_from_le_bytes(out.subrange(3, 11)) == out.len() - 11)
        // layout: header, body chunks (one per body opcode), collapse tail, STOP  (C08: nothing of the old output survives)
        &&& Generator::body_wf(chunks, t)
        &&& out.len() >= h
        &&& out.subrange(h, out.len() as int) == flat(chunks) + codes(tail) + seq![0x2eu8]
        // C04 framing: a left-to-right lexer started right after the header visits exactly these chunk
        // boundaries, reads exactly the recorded opcodes (body, collapse tail, STOP) and ends at the last byte
        &&& Generator::lexes_to(out, h, chunks + singles(tail) + seq![seq![0x2eu8]], ops_of(t) + ops_of(tail) + seq![OpcodeKind::Stop])
        &&& self.same_config_but_proto(o)
    }

    pub proof fn lemma_gen_framing(out: Seq<u8>, h: int, gch: Seq<Seq<u8>>, gtr: Trace, tail: Trace, v: Version)
        requires
            0 <= h <= out.len(),
            out.subrange(h, out.len() as int) == flat(gch) + codes(tail) + seq![0x2eu8],
            Generator::body_wf(gch, gtr),
            forall|i: int| 0 <= i < tail.len() ==> Generator::tail_op(#[trigger] tail[i].0, v),
        ensures
            Generator::lexes_to(out, h, gch + singles(tail) + seq![seq![0x2eu8]], ops_of(gtr) + ops_of(tail) + seq![OpcodeKind::Stop]),
    {
        let ca = gch + singles(tail) + seq![seq![0x2eu8]];
        let oa = ops_of(gtr) + ops_of(tail) + seq![OpcodeKind::Stop];
        lemma_flat_concat(gch, singles(tail));
        lemma_flat_concat(gch + singles(tail), seq![seq![0x2eu8]]);
        lemma_flat_singles(tail);
        let one = seq![seq![0x2eu8]];
        assert(one.len() == 1 && one.last() == seq![0x2eu8]);
        assert(one.drop_last().len() == 0);
        assert(flat(one.drop_last()) =~= Seq::<u8>::empty());
        assert(flat(one) =~= seq![0x2eu8]);
        assert(flat(ca) =~= flat(gch) + codes(tail) + seq![0x2eu8]);
        assert forall|i: int| 0 <= i < ca.len() implies enc_ok(#[trigger] oa[i], ca[i]) by {
            if i < gch.len() { assert(ca[i] == gch[i] && oa[i] == gtr[i].0); }
            else if i < gch.len() + tail.len() {
                let k = i - gch.len();
                assert(ca[i] == singles(tail)[k] && oa[i] == tail[k].0);
                assert(Generator::tail_op(tail[k].0, v));
            }
            else { assert(ca[i] == seq![0x2eu8] && oa[i] == OpcodeKind::Stop); }
        }
        lemma_framing(out, h, ca, oa);
    }

    pub open spec fn lexes_to(s: Seq<u8>, p: int, ca: Seq<Seq<u8>>, oa: Seq<OpcodeKind>) -> bool {
        &&& ca.len() == oa.len()
        &&& forall|i: int| 0 <= i < ca.len() ==>
                ref_op_of_byte(s[p + offs(ca, i)]) == #[trigger] oa[i]
                && lex_len(s, p + offs(ca, i)) == ca[i].len()
                && p + offs(ca, i) + lex_len(s, p + offs(ca, i)) == p + offs(ca, i + 1)
        &&& p + offs(ca, ca.len() as int) == s.len()
    }

//@fn src/generator/core.rs Generator::generate_internal
//@ret res
//@props C01 C02 C03 C04 C05 C06 C08 C09 C10 C11 C12
//@sigsubst Result<Vec<u8>> => Result<Vec<u8>, VfError>
//@rewrite R20
//@rewrite R16
//@subst self.output.len().checked_sub(pos + 9).ok_or_else(|| { ... })? => vf_checked_sub_or_err(self.output.len(), pos + 9)?
//@subst color_eyre::eyre::eyre!( ... ) => VfError { code: 2 }
//@subst self.output[pos + 1..pos + 9].copy_from_slice(&(frame_size as u64).to_le_bytes()) => vf_copy_le_u64(&mut self.output, pos + 1, frame_size as u64)
//@rewrite R14 get_valid_opcodes self.get_valid_opcodes(Ghost(gr))
//@rewrite R14 emit_and_process self.emit_and_process($ARGS, Ghost(gr))
//@rewrite R14 cleanup_for_stop self.cleanup_for_stop(Ghost(gr))
//@rewrite R14 emit_opcode self.emit_opcode($ARGS, Ghost(gr2))
//@contract
    requires
        !old(self).unsafe_mutations,
        old(self).mutators_consistent(),
        old(self).min_opcodes < 0x1_0000_0000 && old(self).max_opcodes < 0x1_0000_0000,
    ensures
        res is Ok, // @C09
        res is Ok ==> res->Ok_0@ =~= final(self).output@, // @C08
        exists|nbody: int, framed: bool, t: Trace, tail: Trace, chunks: Seq<Seq<u8>>|
            #[trigger] final(self).gen_post(old(self), final(self).output@, nbody, framed, t, tail, chunks),
//@prelude
        let ghost mut gr: RefState = empty_state();
        let ghost mut gtr: Trace = Seq::empty();
        let ghost mut gch: Seq<Seq<u8>> = Seq::empty();
        let ghost a0 = RefArg { idx: 0 };
//@before 1 self.emit_proto(source)
        // C12: for protocols >= 4 framing is decided by a coin drawn from the entropy source (both outcomes occur: u9_*_gen_bool_both)
        proof { assert(ver_num(self.state.version) >= 4 ==> use_frame == source.last_bool()); } // @C12?
//@before 1 let mut vf_i: usize = 0;
        let ghost hdr0 = self.output@;
        let ghost h = Generator::hdr_len(ver_num(self.state.version), use_frame);
        proof {
            assert(self.output@ =~= hdr0 + flat(gch));
            assert(self.state.memo@.len() == 0); // @C08
            assert(self.rel(gr)); // @C08
            assert(hdr0.len() == h); // @C08 @C05 @C06
        }
//@loop 1
            invariant
                !self.unsafe_mutations, self.mutators_consistent(),
                self.same_config_but_proto(old(self)), // @C08 (the configuration is not touched by a generation call: later calls see the same knobs)
                ver_num(self.state.version) >= 2 ==> self.state.proto_emitted, // @C05
                self.rel(gr), // @C17 @C01 @C02 @C03
                contig(gr), // @C02
                gr == ref_run(empty_state(), gtr), ref_run_ok(empty_state(), gtr), // @C01 @C02 @C03
                gtr.len() == vf_i, vf_i <= target_opcodes, // @C11
                forall|i: int| 0 <= i < gtr.len() ==> old(self).op_ok(#[trigger] gtr[i].0), // @C05 @C10 @C06
                Generator::body_wf(gch, gtr), // @C11 @C04
                self.output@ == hdr0 + flat(gch), hdr0.len() == h, // @C08 @C06 @C11
                gr.stack.len() <= gtr.len(), 0 <= gr.memo_len <= gtr.len(), // @C11
                target_opcodes < 0x1_0000_0000,
            ensures
                gtr.len() == target_opcodes,
            decreases target_opcodes - vf_i,
//@after 1 let valid_ops = self.get_valid_opcodes(
            let ghost vops = valid_ops@;
//@after 1 let chosen = self.weighted_choice(
            let ghost g0 = *self;
            proof {
                let i = choose|i: int| 0 <= i < vops.len() && vops[i] == chosen;
                assert(self.guard_ok(vops[i], gr));
            }
//@after 1 self.emit_and_process(
            proof {
                let (op2, a, chunk) = choose|op2: OpcodeKind, a: RefArg, chunk: Seq<u8>| self.emit_post(&g0, gr, chosen, op2, a, chunk);
                lemma_run_push(empty_state(), gtr, op2, a);
                lemma_flat_push(gch, chunk);
                lemma_step_growth(op2, a, gr);
                assert(self.output@ =~= hdr0 + (flat(gch) + chunk));
                gtr = gtr.push((op2, a));
                gch = gch.push(chunk);
                gr = ref_step(op2, a, gr);
            }
//@before 1 self.cleanup_for_stop(
        let ghost g1 = *self;
//@after 1 self.cleanup_for_stop(
        let ghost tail = choose|t: Trace| self.cleanup_post(&g1, gr, t);
        let ghost gr2 = ref_run(gr, tail);
        proof {
            lemma_run_concat(empty_state(), gtr, tail);
            lemma_run_push(empty_state(), gtr + tail, OpcodeKind::Stop, a0);
        }
//@before 1 Ok(self.output.clone())
        proof {
            let out = self.output@;
            let v = ver_num(old(self).state.version);
            assert(ref_run_ok(empty_state(), (gtr + tail).push((OpcodeKind::Stop, a0)))); // @C01 @C02 @C03
            assert(forall|i: int| 0 <= i < gtr.len() ==> old(self).op_ok(#[trigger] gtr[i].0)); // @C05 @C10 @C06
            assert(forall|i: int| 0 <= i < tail.len() ==> Generator::tail_op(#[trigger] tail[i].0, old(self).state.version)); // @C05 @C10
            assert(gtr.len() == target_opcodes as int && old(self).min_opcodes <= target_opcodes); // @C11
            assert(tail.len() <= 2 * target_opcodes + 1); // @C11
            assert(v >= 2 ==> out.len() >= 2 && out[0] == 0x80 && out[1] == v); // @C05 @C08
            assert(use_frame ==> v >= 4 && out.len() >= 11 && out[2] == 0x95); // @C06 @C08
            assert(use_frame ==> vstd::bytes::spec_u64_from_le_bytes(out.subrange(3, 11)) == out.len() - 11); // @C06
            assert(out.len() >= h);
            assert(out.subrange(h, out.len() as int) =~= flat(gch) + codes(tail) + seq![0x2eu8]); // @C08 @C06 @C11
            assert(self.same_config_but_proto(old(self))); // @C08
            // framing (C04): the lexer re-discovers exactly the recorded opcodes
            Generator::lemma_gen_framing(out, h, gch, gtr, tail, old(self).state.version);
            assert(self.gen_post(old(self), out, target_opcodes as int, use_frame, gtr, tail, gch));
        }
//@endfn

    // =============================================================================================
    // ANY MODE (unsafe mutations included): the same emitter bodies against a contract that needs no
    // agreement between simulation and bytes: no panic, Ok, and what is appended is nothing or
    // exactly one well-formed, flag-respecting opcode -- also after a type-confusion rewrite.
    pub open spec fn chunk_ok_u(&self, c: Seq<u8>) -> bool {
        c.len() == 0 || (one_opcode(c) && self.flags_ok(ref_op_of_byte(c[0])))
    }
    pub proof fn lemma_emit_u(o: &Generator, mid: Seq<u8>, fin: Seq<u8>, snap_len: nat)
        requires
            snap_len == o.output@.len(),
            exists|e: Seq<u8>| mid == o.output@ + e && #[trigger] o.chunk_ok_u(e),
            fin == mid || exists|rep: Seq<u8>, k: int| fin == mid.take(snap_len as int) + rep && #[trigger] replacement_ok(rep, k),
        ensures
            exists|chunk: Seq<u8>| fin == o.output@ + chunk && #[trigger] o.chunk_ok_u(chunk),
    {
        let e = choose|e: Seq<u8>| mid == o.output@ + e && #[trigger] o.chunk_ok_u(e);
        if fin == mid {
            assert(fin == o.output@ + e && o.chunk_ok_u(e));
        } else {
            let (rep, k) = choose|rep: Seq<u8>, k: int| fin == mid.take(snap_len as int) + rep && #[trigger] replacement_ok(rep, k);
            assert(mid.take(snap_len as int) =~= o.output@);
            lemma_class_is_value_pusher(rep[0]);
            assert(fin == o.output@ + rep && o.chunk_ok_u(rep));
        }
    }

//@define EMITU_CONTRACT
//@contract
    requires
        old(self).rel(r),
        old(self).guard_ok(opcode, r),
        ref_proto(opcode) <= ver_num(old(self).state.version),
        ver_num(old(self).state.version) >= 2 ==> old(self).state.proto_emitted,
    ensures
        res is Ok, // @C09
        final(self).same_config(old(self)), // @C08
        exists|chunk: Seq<u8>| final(self).output@ == old(self).output@ + chunk && #[trigger] old(self).chunk_ok_u(chunk), // @C04 @C10 @C06
        // C11 in any mode: a chosen body opcode contributes an opcode (not nothing).  BINGET needs a memo key below 256:
        // the simulated memo keys are 0..len in every mode (sim_contig, an invariant of generate_internal_u)
        sim_contig(old(self)) || opcode != OpcodeKind::BinGet ==> final(self).output@.len() > old(self).output@.len(), // @C11
        contig_pre(old(self)) ==> contig_post(old(self), final(self)), // @C11 @C02
//@enddef

//@fn src/generator/emission.rs Generator::emit_int as emit_int_u
//@ret res
//@ghost Ghost(r): Ghost<RefState>
//@props C04 C06 C09 C10
//@sigsubst Result<()> => Result<(), VfError>
//@subst self.state.version as u8 => vf_version_u8(self.state.version)
//@subst PICKLE_OPCODES.get(&version) => vf_pickle_opcodes(version)
//@substall eyre!( ... ) => VfError { code: 1 }
//@subst valid_kinds .iter() .cloned() .filter( ... ) .collect() => vf_filter_int_like(valid_kinds)
//@subst format!("{int}\n") => vf_fmt_i32_nl(int)
//@subst format!("{int}L\n") => vf_fmt_i32_l_nl(int)
//@subst int.to_le_bytes().to_vec() => vf_arr4_to_vec(vf_i32_to_le_bytes(int))
//@substall int.to_le_bytes() => vf_i32_to_le_bytes(int)
//@subst size.to_le_bytes() => vf_u32_to_le_bytes(size)
//@subst (int & 0xFFFF).to_le_bytes() => vf_i32_to_le_bytes(int & 0xFFFF)
//@subst bytes[..2].to_vec() => vf_first2_to_vec(&bytes)
//@rewrite R17 int vf_int
//@rewrite R14 process_stack_ops self.process_stack_ops($ARGS, Ghost(r), Ghost(RefArg { idx: 0 })); proof { if contig_pre(old(self)) { lemma_contig_step(old(self), self, $1, RefArg { idx: 0 }); } }
//@contract
    requires
        old(self).rel(r),
    ensures
        res is Ok, // @C09
        final(self).same_config(old(self)), // @C08
        exists|chunk: Seq<u8>| final(self).output@ == old(self).output@ + chunk && #[trigger] old(self).chunk_ok_u(chunk), // @C04
        final(self).output@.len() > old(self).output@.len(), // @C11
        contig_pre(old(self)) ==> contig_post(old(self), final(self)), // @C11 @C02
//@before 1 Ok(())
        proof {
            let chunk = self.output@.subrange(old(self).output@.len() as int, self.output@.len() as int);
            assert(self.output@ =~= old(self).output@ + chunk);
            assert(chunk.subrange(1, chunk.len() as int) =~= arg@);
            assert(chunk.len() == 1 + arg@.len());
            assert(enc_ok(chosen, chunk)); // @C04 @C11 @C17
            lemma_op_of_byte(chosen);
            assert(old(self).chunk_ok_u(chunk));
        }
//@endfn

//@fn src/generator/emission.rs Generator::emit_global as emit_global_u
//@ret res
//@ghost Ghost(r): Ghost<RefState>
//@props C04 C06 C09 C10
//@sigsubst Result<()> => Result<(), VfError>
//@subst module.as_bytes().to_vec() => vf_to_vec(module.as_bytes())
//@rewrite R14 process_stack_ops self.process_stack_ops($ARGS, Ghost(r), Ghost(RefArg { idx: 0 })); proof { if contig_pre(old(self)) { lemma_contig_step(old(self), self, $1, RefArg { idx: 0 }); } }
//@contract
    requires
        old(self).rel(r),
    ensures
        res is Ok, // @C09
        final(self).same_config(old(self)), // @C08
        exists|chunk: Seq<u8>| final(self).output@ == old(self).output@ + chunk && #[trigger] old(self).chunk_ok_u(chunk), // @C04
        final(self).output@.len() > old(self).output@.len(), // @C11
        contig_pre(old(self)) ==> contig_post(old(self), final(self)), // @C11 @C02
//@before 1 Ok(())
        proof {
            let chunk = self.output@.subrange(old(self).output@.len() as int, self.output@.len() as int);
            assert(self.output@ =~= old(self).output@ + chunk);
            assert(chunk.subrange(1, chunk.len() as int) =~= arg_bytes@);
            assert(enc_ok(OpcodeKind::Global, chunk)); // @C04 @C11 @C17
            lemma_op_of_byte(OpcodeKind::Global);
            assert(old(self).chunk_ok_u(chunk));
        }
//@endfn

//@arms src/generator/emission.rs Generator::emit_bytes opcode as emit_bytes_u
//@ret res
//@ghost Ghost(r): Ghost<RefState>
//@props C04 C06 C09 C10
//@sigsubst Result<()> => Result<(), VfError>
//@subst (0..len).map(|_| source.gen_u8()).collect() => vf_gen_u8_vec(source, len)
//@rewrite R14? process_stack_ops self.process_stack_ops($ARGS, Ghost(r), Ghost(RefArg { idx: 0 })); proof { if contig_pre(old(self)) { lemma_contig_step(old(self), self, $1, RefArg { idx: 0 }); } }
//@rewrite R4
//@contract
    requires
        old(self).rel(r),
        Generator::bytes_family(opcode),
    ensures
        res is Ok, // @C09
        final(self).same_config(old(self)), // @C08
        exists|chunk: Seq<u8>| final(self).output@ == old(self).output@ + chunk && #[trigger] old(self).chunk_ok_u(chunk), // @C04
        final(self).output@.len() > old(self).output@.len(), // @C11
        contig_pre(old(self)) ==> contig_post(old(self), final(self)), // @C11 @C02
//@before 1 Ok(())
        proof {
            let chunk = self.output@.subrange(old(self).output@.len() as int, self.output@.len() as int);
            assert(self.output@ =~= old(self).output@ + chunk);
            if chunk.len() > 0 { assert(enc_ok(opcode, chunk)); /* @C04 @C11 */ lemma_op_of_byte(opcode); }
            assert(old(self).chunk_ok_u(chunk));
        }
//@arm _
//@unreachable
//@endfn

//@arms src/generator/emission.rs Generator::emit_string opcode as emit_string_u
//@ret res
//@ghost Ghost(r): Ghost<RefState>
//@props C04 C06 C09 C10
//@sigsubst Result<()> => Result<(), VfError>
//@subst (0..len).map(|_| source.gen_ascii_char()).collect() => vf_gen_ascii_string(source, len)
//@rewrite R14? process_stack_ops self.process_stack_ops($ARGS, Ghost(r), Ghost(RefArg { idx: 0 })); proof { if contig_pre(old(self)) { lemma_contig_step(old(self), self, $1, RefArg { idx: 0 }); } }
//@substall? s.into_bytes() => vf_string_into_bytes(s)
//@rewrite R4
//@prelude
        let ghost mut gtext: Seq<u8> = Seq::empty();
//@contract
    requires
        old(self).rel(r),
        Generator::string_family(opcode),
    ensures
        res is Ok, // @C09
        final(self).same_config(old(self)), // @C08
        exists|chunk: Seq<u8>| final(self).output@ == old(self).output@ + chunk && #[trigger] old(self).chunk_ok_u(chunk), // @C04
        final(self).output@.len() > old(self).output@.len(), // @C11
        contig_pre(old(self)) ==> contig_post(old(self), final(self)), // @C11 @C02
//@before 1 Ok(())
        proof {
            let chunk = self.output@.subrange(old(self).output@.len() as int, self.output@.len() as int);
            assert(self.output@ =~= old(self).output@ + chunk);
            if opcode == OpcodeKind::String || opcode == OpcodeKind::Unicode { assert(chunk.subrange(1, chunk.len() as int) =~= gtext); }
            if chunk.len() > 0 { assert(enc_ok(opcode, chunk)); /* @C04 @C11 */ lemma_op_of_byte(opcode); }
            assert(old(self).chunk_ok_u(chunk));
        }
//@arm String
//@subst let escaped = s ... ; => let escaped = vf_escape_py(&s);
//@subst format!("'{}'\n", escaped) => vf_fmt_quoted_nl(&escaped)
//@after 1 self.output.extend_from_slice(&arg_bytes);
                proof { gtext = arg_bytes@; assert(self.output@.subrange(old(self).output@.len() as int + 1, self.output@.len() as int) =~= gtext); }
//@arm Unicode
//@subst s.replace('\\', "\\\\") => vf_escape_backslash(&s)
//@subst format!("{}\n", escaped) => vf_fmt_line_nl(&escaped)
//@after 1 self.output.extend_from_slice(&arg_bytes);
                proof { gtext = arg_bytes@; assert(self.output@.subrange(old(self).output@.len() as int + 1, self.output@.len() as int) =~= gtext); }
//@arm _
//@unreachable
//@endfn

//@arms src/generator/emission.rs Generator::emit_and_process opcode as emit_and_process_u
//@ret res
//@ghost Ghost(r): Ghost<RefState>
//@props C04 C06 C09 C10
//@sigsubst Result<()> => Result<(), VfError>
//@prelude
        let ghost mut gtext: Seq<u8> = Seq::empty();
        let ghost mut g_out: Seq<u8> = Seq::empty();
//@use EMITU_CONTRACT
//@arm Int | Long | Long1 | Long4 | BinInt | BinInt1 | BinInt2
//@rewrite R14 emit_int self.emit_int_u($ARGS, Ghost(r))
//@before 1 self.post_process_emission(
        proof { g_out = self.output@; }
//@before 1 Ok(())
        proof { Generator::lemma_emit_u(old(self), g_out, self.output@, old(self).output@.len()); }
//@arm Float
//@subst format!("{}\n", value) => vf_fmt_f64_nl(value)
//@rewrite R14? process_stack_ops self.process_stack_ops($ARGS, Ghost(r), Ghost(RefArg { idx: 0 })); proof { if contig_pre(old(self)) { lemma_contig_step(old(self), self, $1, RefArg { idx: 0 }); } }
//@after 1 self.output.extend_from_slice(arg_bytes);
                    proof { gtext = arg_bytes@; assert(self.output@.subrange(old(self).output@.len() as int + 1, self.output@.len() as int) =~= gtext);
                            assert(self.output@.len() == old(self).output@.len() + 1 + gtext.len()); }
//@before 1 self.post_process_emission(
        proof { g_out = self.output@; }
//@before 1 Ok(())
        proof {
            let e = g_out.subrange(old(self).output@.len() as int, g_out.len() as int);
            assert(g_out =~= old(self).output@ + e);
            if e.len() > 0 {
                assert(e.subrange(1, e.len() as int) =~= gtext);
                assert(enc_ok(opcode, e)); // @C04 @C11
                lemma_op_of_byte(opcode);
                assert(old(self).chunk_ok_u(e)); // @C04 @C10
            }
            assert(old(self).chunk_ok_u(e));
            assert(g_out == old(self).output@ + e && old(self).chunk_ok_u(e));
            Generator::lemma_emit_u(old(self), g_out, self.output@, old(self).output@.len());
        }
//@arm BinFloat
//@subst value.to_be_bytes() => vf_f64_to_be_bytes(value)
//@rewrite R14? process_stack_ops self.process_stack_ops($ARGS, Ghost(r), Ghost(RefArg { idx: 0 })); proof { if contig_pre(old(self)) { lemma_contig_step(old(self), self, $1, RefArg { idx: 0 }); } }
//@before 1 self.post_process_emission(
        proof { g_out = self.output@; }
//@before 1 Ok(())
        proof {
            let e = g_out.subrange(old(self).output@.len() as int, g_out.len() as int);
            assert(g_out =~= old(self).output@ + e);
            if e.len() > 0 {
                assert(enc_ok(opcode, e)); // @C04 @C11
                lemma_op_of_byte(opcode);
                assert(old(self).chunk_ok_u(e)); // @C04 @C10
            }
            assert(old(self).chunk_ok_u(e));
            assert(g_out == old(self).output@ + e && old(self).chunk_ok_u(e));
            Generator::lemma_emit_u(old(self), g_out, self.output@, old(self).output@.len());
        }
//@arm String | Unicode | ShortBinUnicode | BinUnicode | BinUnicode8
//@rewrite R14 emit_string self.emit_string_u($ARGS, Ghost(r))
//@before 1 self.post_process_emission(
        proof { g_out = self.output@; }
//@before 1 Ok(())
        proof { Generator::lemma_emit_u(old(self), g_out, self.output@, old(self).output@.len()); }
//@arm BinString | ShortBinString | ShortBinBytes | BinBytes | BinBytes8 | ByteArray8
//@rewrite R14 emit_bytes self.emit_bytes_u($ARGS, Ghost(r))
//@before 1 self.post_process_emission(
        proof { g_out = self.output@; }
//@before 1 Ok(())
        proof { Generator::lemma_emit_u(old(self), g_out, self.output@, old(self).output@.len()); }
//@arm Global
//@rewrite R14 emit_global self.emit_global_u($ARGS, Ghost(r))
//@before 1 self.post_process_emission(
        proof { g_out = self.output@; }
//@before 1 Ok(())
        proof { Generator::lemma_emit_u(old(self), g_out, self.output@, old(self).output@.len()); }
//@arm Put
//@subst format!("{}\n", index) => vf_fmt_usize_nl(index)
//@rewrite R14? process_stack_ops self.process_stack_ops($ARGS, Ghost(r), Ghost(RefArg { idx: index as int })); proof { if contig_pre(old(self)) { lemma_contig_step(old(self), self, $1, RefArg { idx: index as int }); } }
//@after 1 self.output.extend_from_slice(arg_bytes);
                    proof { gtext = arg_bytes@; assert(self.output@.subrange(old(self).output@.len() as int + 1, self.output@.len() as int) =~= gtext);
                            assert(self.output@.len() == old(self).output@.len() + 1 + gtext.len()); }
//@before 1 self.post_process_emission(
        proof { g_out = self.output@; }
//@before 1 Ok(())
        proof {
            let e = g_out.subrange(old(self).output@.len() as int, g_out.len() as int);
            assert(g_out =~= old(self).output@ + e);
            if e.len() > 0 {
                assert(e.subrange(1, e.len() as int) =~= gtext);
                assert(enc_ok(opcode, e)); // @C04 @C11
                lemma_op_of_byte(opcode);
                assert(old(self).chunk_ok_u(e)); // @C04 @C10
            }
            assert(old(self).chunk_ok_u(e));
            assert(g_out == old(self).output@ + e && old(self).chunk_ok_u(e));
            Generator::lemma_emit_u(old(self), g_out, self.output@, old(self).output@.len());
        }
//@arm BinPut
//@rewrite R14? process_stack_ops self.process_stack_ops($ARGS, Ghost(r), Ghost(RefArg { idx: index as int })); proof { if contig_pre(old(self)) { lemma_contig_step(old(self), self, $1, RefArg { idx: index as int }); } }
//@before 1 self.post_process_emission(
        proof { g_out = self.output@; }
//@before 1 Ok(())
        proof {
            let e = g_out.subrange(old(self).output@.len() as int, g_out.len() as int);
            assert(g_out =~= old(self).output@ + e);
            if e.len() > 0 {
                assert(enc_ok(opcode, e)); // @C04 @C11
                lemma_op_of_byte(opcode);
                assert(old(self).chunk_ok_u(e)); // @C04 @C10
            }
            assert(old(self).chunk_ok_u(e));
            assert(g_out == old(self).output@ + e && old(self).chunk_ok_u(e));
            Generator::lemma_emit_u(old(self), g_out, self.output@, old(self).output@.len());
        }
//@arm LongBinPut
//@substall index.to_le_bytes() => vf_u32_to_le_bytes(index)
//@rewrite R14? process_stack_ops self.process_stack_ops($ARGS, Ghost(r), Ghost(RefArg { idx: index as int })); proof { if contig_pre(old(self)) { lemma_contig_step(old(self), self, $1, RefArg { idx: index as int }); } }
//@before 1 self.post_process_emission(
        proof { g_out = self.output@; }
//@before 1 Ok(())
        proof {
            let e = g_out.subrange(old(self).output@.len() as int, g_out.len() as int);
            assert(g_out =~= old(self).output@ + e);
            if e.len() > 0 {
                assert(enc_ok(opcode, e)); // @C04 @C11
                lemma_op_of_byte(opcode);
                assert(old(self).chunk_ok_u(e)); // @C04 @C10
            }
            assert(old(self).chunk_ok_u(e));
            assert(g_out == old(self).output@ + e && old(self).chunk_ok_u(e));
            Generator::lemma_emit_u(old(self), g_out, self.output@, old(self).output@.len());
        }
//@arm Get
//@subst self.state.memo.keys().copied().collect() => vf_keys(&self.state.memo)
//@subst? keys.sort_unstable() => vf_sort_unstable(&mut keys)
//@subst format!("{}\n", index) => vf_fmt_usize_nl(index)
//@rewrite R14? process_stack_ops self.process_stack_ops($ARGS, Ghost(r), Ghost(RefArg { idx: index as int })); proof { if contig_pre(old(self)) { lemma_contig_step(old(self), self, $1, RefArg { idx: index as int }); } }
//@after 1 self.output.extend_from_slice(arg_bytes);
                    proof { gtext = arg_bytes@; assert(self.output@.subrange(old(self).output@.len() as int + 1, self.output@.len() as int) =~= gtext);
                            assert(self.output@.len() == old(self).output@.len() + 1 + gtext.len()); }
//@after 1 let index = keys[
                    let ghost gk: usize = index;
                    let ghost gs: GenerationSource = *source;
//@before 1 self.output.push(
                    proof {
                        // C15 at the call site, any mode: the memo index that gets written is the dispatcher's answer for the picked key,
                        // or (safe mode only) the picked key because that answer is no defined index
                        let fm = Generator::first_memo(&self.mutators, 0, gk, gs, self.mutation_rate).0;
                        assert(index == fm || (!self.unsafe_mutations && index == gk && !self.state.memo@.dom().contains(fm))
                            || (vf_rate_zero(self.mutation_rate) && index == gk)); // @C15
                    }
//@before 1 self.post_process_emission(
        proof { g_out = self.output@; }
//@before 1 Ok(())
        proof {
            let e = g_out.subrange(old(self).output@.len() as int, g_out.len() as int);
            assert(g_out =~= old(self).output@ + e);
            if e.len() > 0 {
                assert(e.subrange(1, e.len() as int) =~= gtext);
                assert(enc_ok(opcode, e)); // @C04 @C11
                lemma_op_of_byte(opcode);
                assert(old(self).chunk_ok_u(e)); // @C04 @C10
            }
            assert(old(self).chunk_ok_u(e));
            assert(g_out == old(self).output@ + e && old(self).chunk_ok_u(e));
            Generator::lemma_emit_u(old(self), g_out, self.output@, old(self).output@.len());
        }
//@arm BinGet
//@subst self.state.memo.keys().filter(|&&k| k < 256).copied().collect() => vf_keys_below(&self.state.memo, 256)
//@subst? valid_indices.sort_unstable() => vf_sort_unstable(&mut valid_indices)
//@rewrite R14? process_stack_ops self.process_stack_ops($ARGS, Ghost(r), Ghost(RefArg { idx: index as int })); proof { if contig_pre(old(self)) { lemma_contig_step(old(self), self, $1, RefArg { idx: index as int }); } }
//@before 1 if !valid_indices.is_empty()
                proof {
                    // keys are 0..len and the guard says len > 0: key 0 is below 256, so BINGET always has a candidate
                    if sim_contig(old(self)) {
                        assert(self.state.memo@.dom().contains(0usize));
                        assert(valid_indices@.contains(0usize));
                    }
                }
//@after 1 let index = valid_indices[
                    proof { assert(valid_indices@.contains(index)); }
//@after 1 let index = valid_indices[
                    let ghost gk: usize = index;
                    let ghost gs: GenerationSource = *source;
//@before 1 self.output.push(
                    proof {
                        let fm0 = Generator::first_memo(&self.mutators, 0, gk, gs, self.mutation_rate).0;
                        let fm = if fm0 < 255 { fm0 } else { 255usize };
                        assert(index == fm || (!self.unsafe_mutations && index == gk && !(fm < 256 && self.state.memo@.dom().contains(fm)))
                            || (vf_rate_zero(self.mutation_rate) && index == gk && gk < 256)); // @C15
                    }
//@before 1 self.post_process_emission(
        proof { g_out = self.output@; }
//@before 1 Ok(())
        proof {
            let e = g_out.subrange(old(self).output@.len() as int, g_out.len() as int);
            assert(g_out =~= old(self).output@ + e);
            if e.len() > 0 {
                assert(enc_ok(opcode, e)); // @C04 @C11
                lemma_op_of_byte(opcode);
                assert(old(self).chunk_ok_u(e)); // @C04 @C10
            }
            assert(old(self).chunk_ok_u(e));
            assert(g_out == old(self).output@ + e && old(self).chunk_ok_u(e));
            Generator::lemma_emit_u(old(self), g_out, self.output@, old(self).output@.len());
        }
//@arm LongBinGet
//@subst self.state.memo.keys().copied().collect() => vf_keys(&self.state.memo)
//@subst? keys.sort_unstable() => vf_sort_unstable(&mut keys)
//@subst (index as u32).to_le_bytes() => vf_u32_to_le_bytes(index as u32)
//@rewrite R14? process_stack_ops self.process_stack_ops($ARGS, Ghost(r), Ghost(RefArg { idx: (index as u32) as int })); proof { if contig_pre(old(self)) { lemma_contig_step(old(self), self, $1, RefArg { idx: (index as u32) as int }); } }
//@after 1 let index = keys[
                    let ghost gk: usize = index;
                    let ghost gs: GenerationSource = *source;
//@before 1 self.output.push(
                    proof {
                        // C15 at the call site, any mode: the memo index that gets written is the dispatcher's answer for the picked key,
                        // or (safe mode only) the picked key because that answer is no defined index
                        let fm = Generator::first_memo(&self.mutators, 0, gk, gs, self.mutation_rate).0;
                        assert(index == fm || (!self.unsafe_mutations && index == gk && !self.state.memo@.dom().contains(fm))
                            || (vf_rate_zero(self.mutation_rate) && index == gk)); // @C15
                    }
//@before 1 self.post_process_emission(
        proof { g_out = self.output@; }
//@before 1 Ok(())
        proof {
            let e = g_out.subrange(old(self).output@.len() as int, g_out.len() as int);
            assert(g_out =~= old(self).output@ + e);
            if e.len() > 0 {
                assert(enc_ok(opcode, e)); // @C04 @C11
                lemma_op_of_byte(opcode);
                assert(old(self).chunk_ok_u(e)); // @C04 @C10
            }
            assert(old(self).chunk_ok_u(e));
            assert(g_out == old(self).output@ + e && old(self).chunk_ok_u(e));
            Generator::lemma_emit_u(old(self), g_out, self.output@, old(self).output@.len());
        }
//@arm Ext1
//@subst debug_assert!(code >= 1, "EXT1 code out of range: {}", code) => assert(code >= 1) /* @C04 */
//@rewrite R14? process_stack_ops self.process_stack_ops($ARGS, Ghost(r), Ghost(RefArg { idx: 0 })); proof { if contig_pre(old(self)) { lemma_contig_step(old(self), self, $1, RefArg { idx: 0 }); } }
//@before 1 self.post_process_emission(
        proof { g_out = self.output@; }
//@before 1 Ok(())
        proof {
            let e = g_out.subrange(old(self).output@.len() as int, g_out.len() as int);
            assert(g_out =~= old(self).output@ + e);
            if e.len() > 0 {
                assert(enc_ok(opcode, e)); // @C04 @C11
                lemma_op_of_byte(opcode);
                assert(old(self).chunk_ok_u(e)); // @C04 @C10
            }
            assert(old(self).chunk_ok_u(e));
            assert(g_out == old(self).output@ + e && old(self).chunk_ok_u(e));
            Generator::lemma_emit_u(old(self), g_out, self.output@, old(self).output@.len());
        }
//@arm Ext2
//@subst debug_assert!(code >= 1, "EXT2 code out of range: {}", code) => assert(code >= 1) /* @C04 */
//@substall code.to_le_bytes() => vf_u16_to_le_bytes(code)
//@rewrite R14? process_stack_ops self.process_stack_ops($ARGS, Ghost(r), Ghost(RefArg { idx: 0 })); proof { if contig_pre(old(self)) { lemma_contig_step(old(self), self, $1, RefArg { idx: 0 }); } }
//@before 1 self.post_process_emission(
        proof { g_out = self.output@; }
//@before 1 Ok(())
        proof {
            let e = g_out.subrange(old(self).output@.len() as int, g_out.len() as int);
            assert(g_out =~= old(self).output@ + e);
            if e.len() > 0 {
                assert(enc_ok(opcode, e)); // @C04 @C11
                lemma_op_of_byte(opcode);
                assert(old(self).chunk_ok_u(e)); // @C04 @C10
            }
            assert(old(self).chunk_ok_u(e));
            assert(g_out == old(self).output@ + e && old(self).chunk_ok_u(e));
            Generator::lemma_emit_u(old(self), g_out, self.output@, old(self).output@.len());
        }
//@arm Ext4
//@subst debug_assert!(code > 0, "EXT4 code must be > 0, got {}", code) => assert(0 < code <= 0x7fff_ffff) /* @C04 */
//@substall code.to_le_bytes() => vf_u32_to_le_bytes(code)
//@rewrite R14? process_stack_ops self.process_stack_ops($ARGS, Ghost(r), Ghost(RefArg { idx: 0 })); proof { if contig_pre(old(self)) { lemma_contig_step(old(self), self, $1, RefArg { idx: 0 }); } }
//@before 1 self.post_process_emission(
        proof { g_out = self.output@; }
//@before 1 Ok(())
        proof {
            let e = g_out.subrange(old(self).output@.len() as int, g_out.len() as int);
            assert(g_out =~= old(self).output@ + e);
            if e.len() > 0 {
                assert(enc_ok(opcode, e)); // @C04 @C11
                lemma_op_of_byte(opcode);
                assert(old(self).chunk_ok_u(e)); // @C04 @C10
            }
            assert(old(self).chunk_ok_u(e));
            assert(g_out == old(self).output@ + e && old(self).chunk_ok_u(e));
            Generator::lemma_emit_u(old(self), g_out, self.output@, old(self).output@.len());
        }
//@arm PersID
//@subst format!("pid_{}\n", source.gen_u32()) => vf_fmt_pid_nl(source.gen_u32())
//@rewrite R14? process_stack_ops self.process_stack_ops($ARGS, Ghost(r), Ghost(RefArg { idx: 0 })); proof { if contig_pre(old(self)) { lemma_contig_step(old(self), self, $1, RefArg { idx: 0 }); } }
//@after 1 self.output.extend_from_slice(arg_bytes);
                    proof { gtext = arg_bytes@; assert(self.output@.subrange(old(self).output@.len() as int + 1, self.output@.len() as int) =~= gtext);
                            assert(self.output@.len() == old(self).output@.len() + 1 + gtext.len()); }
//@before 1 self.post_process_emission(
        proof { g_out = self.output@; }
//@before 1 Ok(())
        proof {
            let e = g_out.subrange(old(self).output@.len() as int, g_out.len() as int);
            assert(g_out =~= old(self).output@ + e);
            if e.len() > 0 {
                assert(e.subrange(1, e.len() as int) =~= gtext);
                assert(enc_ok(opcode, e)); // @C04 @C11
                lemma_op_of_byte(opcode);
                assert(old(self).chunk_ok_u(e)); // @C04 @C10
            }
            assert(old(self).chunk_ok_u(e));
            assert(g_out == old(self).output@ + e && old(self).chunk_ok_u(e));
            Generator::lemma_emit_u(old(self), g_out, self.output@, old(self).output@.len());
        }
//@arm Inst
//@rewrite R14? process_stack_ops self.process_stack_ops($ARGS, Ghost(r), Ghost(RefArg { idx: 0 })); proof { if contig_pre(old(self)) { lemma_contig_step(old(self), self, $1, RefArg { idx: 0 }); } }
//@after 1 self.output.extend_from_slice(arg_bytes);
                    proof { gtext = arg_bytes@; assert(self.output@.subrange(old(self).output@.len() as int + 1, self.output@.len() as int) =~= gtext);
                            assert(self.output@.len() == old(self).output@.len() + 1 + gtext.len()); }
//@before 1 self.post_process_emission(
        proof { g_out = self.output@; }
//@before 1 Ok(())
        proof {
            let e = g_out.subrange(old(self).output@.len() as int, g_out.len() as int);
            assert(g_out =~= old(self).output@ + e);
            if e.len() > 0 {
                assert(e.subrange(1, e.len() as int) =~= gtext);
                assert(enc_ok(opcode, e)); // @C04 @C11
                lemma_op_of_byte(opcode);
                assert(old(self).chunk_ok_u(e)); // @C04 @C10
            }
            assert(old(self).chunk_ok_u(e));
            assert(g_out == old(self).output@ + e && old(self).chunk_ok_u(e));
            Generator::lemma_emit_u(old(self), g_out, self.output@, old(self).output@.len());
        }
//@arm Frame
//@unreachable
//@subst unreachable!("Frame should not be emitted during generation") => vf_unreachable()
//@arm _
//@rewrite R14 emit_opcode self.emit_opcode($1, Ghost(r))
//@before 1 self.post_process_emission(
        proof { g_out = self.output@; }
//@before 1 Ok(())
        proof {
            let e = g_out.subrange(old(self).output@.len() as int, g_out.len() as int);
            assert(g_out =~= old(self).output@ + e);
            if e.len() > 0 {
                assert(enc_ok(opcode, e)); // @C04 @C11
                lemma_op_of_byte(opcode);
                assert(old(self).chunk_ok_u(e)); // @C04 @C10
            }
            assert(old(self).chunk_ok_u(e));
            assert(g_out == old(self).output@ + e && old(self).chunk_ok_u(e));
            Generator::lemma_emit_u(old(self), g_out, self.output@, old(self).output@.len());
        }
//@endfn

    /// what is proved about one generation call in ANY mode (unsafe mutations included)
    pub open spec fn gen_post_u(&self, o: &Generator, out: Seq<u8>, framed: bool, chunks: Seq<Seq<u8>>, tail: Trace) -> bool {
        let v = ver_num(o.state.version);
        let h = Generator::hdr_len(v, framed);
        // C04 C10: the body is a sequence of chunks, each nothing or exactly one well-formed, flag-respecting opcode
        &&& forall|i: int| 0 <= i < chunks.len() ==> o.chunk_ok_u(#[trigger] chunks[i])
        // C11 in any mode (budgets below 2^31): T chunks with min <= T <= max(min, max), none of them empty
        &&& (o.min_opcodes < 0x7fff_0000 && o.max_opcodes < 0x7fff_0000 ==>
                o.min_opcodes <= chunks.len() && chunks.len() <= (if o.max_opcodes > o.min_opcodes { o.max_opcodes } else { o.min_opcodes })
                && forall|i: int| 0 <= i < chunks.len() ==> (#[trigger] chunks[i]).len() > 0)
        &&& forall|i: int| 0 <= i < tail.len() ==> Generator::tail_op(#[trigger] tail[i].0, o.state.version)
        // header, FRAME (C06: also when unsafe rewrites happened, the length is patched after them), single trailing STOP
        &&& (v >= 2 ==> out.len() >= 2 && out[0] == 0x80 && out[1] == v)
        &&& (framed ==> v >= 4 && out.len() >= 11 && out[2] == 0x95
                && vstd::bytes::spec_u64_from_le_bytes(out.subrange(3, 11)) == out.len() - 11)
        &&& out.len() >= h
        &&& out.subrange(h, out.len() as int) == flat(chunks) + codes(tail) + seq![0x2eu8]
        &&& self.same_config_but_proto(o)
    }

//@fn src/generator/core.rs Generator::generate_internal as generate_internal_u
//@ret res
//@props C04 C06 C09 C10 C11
//@sigsubst Result<Vec<u8>> => Result<Vec<u8>, VfError>
//@rewrite R20
//@rewrite R16
//@subst self.output.len().checked_sub(pos + 9).ok_or_else(|| { ... })? => vf_checked_sub_or_err(self.output.len(), pos + 9)?
//@subst color_eyre::eyre::eyre!( ... ) => VfError { code: 2 }
//@subst self.output[pos + 1..pos + 9].copy_from_slice(&(frame_size as u64).to_le_bytes()) => vf_copy_le_u64(&mut self.output, pos + 1, frame_size as u64)
//@rewrite R14 get_valid_opcodes self.get_valid_opcodes(Ghost(gr))
//@rewrite R14 emit_and_process self.emit_and_process_u($ARGS, Ghost(gr))
//@rewrite R14 cleanup_for_stop self.cleanup_for_stop(Ghost(gr))
//@rewrite R14 emit_opcode self.emit_opcode($ARGS, Ghost(gr2))
//@contract
    ensures
        res is Ok, // @C09
        res is Ok ==> res->Ok_0@ =~= final(self).output@,
        exists|framed: bool, chunks: Seq<Seq<u8>>, tail: Trace|
            #[trigger] final(self).gen_post_u(old(self), final(self).output@, framed, chunks, tail),
//@prelude
        let ghost mut gr: RefState = empty_state();
        let ghost mut gch: Seq<Seq<u8>> = Seq::empty();
        let ghost a0 = RefArg { idx: 0 };
//@before 1 self.emit_proto(source)
        // C12: for protocols >= 4 framing is decided by a coin drawn from the entropy source (both outcomes occur: u9_*_gen_bool_both)
        proof { assert(ver_num(self.state.version) >= 4 ==> use_frame == source.last_bool()); } // @C12?
//@before 1 let mut vf_i: usize = 0;
        let ghost hdr0 = self.output@;
        let ghost h = Generator::hdr_len(ver_num(self.state.version), use_frame);
        proof {
            assert(self.output@ =~= hdr0 + flat(gch));
            assert(self.state.memo@.len() == 0);
            assert(self.rel(gr));
            assert(hdr0.len() == h); // @C06
        }
//@loop 1
            invariant
                self.same_config_but_proto(old(self)), // @C08
                ver_num(self.state.version) >= 2 ==> self.state.proto_emitted,
                self.rel(gr),
                vf_i <= target_opcodes,
                forall|i: int| 0 <= i < gch.len() ==> old(self).chunk_ok_u(#[trigger] gch[i]), // @C04 @C10
                gch.len() == vf_i, // @C11
                old(self).min_opcodes <= target_opcodes, // @C11
                target_opcodes <= (if old(self).max_opcodes > old(self).min_opcodes { old(self).max_opcodes } else { old(self).min_opcodes }), // @C11
                target_opcodes < 0x7fff_0000 ==> sim_contig(self) && self.state.memo@.len() <= vf_i
                    && forall|i: int| 0 <= i < gch.len() ==> (#[trigger] gch[i]).len() > 0, // @C11
                self.output@ == hdr0 + flat(gch), hdr0.len() == h, // @C06
            ensures
                gch.len() == target_opcodes, // @C11 (the early `break` on an empty candidate list is dead: the list is never empty)
            decreases target_opcodes - vf_i,
//@after 1 let valid_ops = self.get_valid_opcodes(
            let ghost vops = valid_ops@;
//@after 1 let chosen = self.weighted_choice(
            let ghost g0 = *self;
            proof {
                let i = choose|i: int| 0 <= i < vops.len() && vops[i] == chosen;
                assert(self.guard_ok(vops[i], gr));
            }
//@after 1 self.emit_and_process_u(
            proof {
                let chunk = choose|chunk: Seq<u8>| self.output@ == g0.output@ + chunk && g0.chunk_ok_u(chunk);
                lemma_flat_push(gch, chunk);
                assert(self.output@ =~= hdr0 + (flat(gch) + chunk));
                assert(old(self).chunk_ok_u(chunk));
                assert(target_opcodes < 0x7fff_0000 ==> chunk.len() > 0); // @C11
                gch = gch.push(chunk);
                gr = self.own_state();
                self.lemma_own_rel();
            }
//@before 1 self.cleanup_for_stop(
        let ghost g1 = *self;
//@after 1 self.cleanup_for_stop(
        let ghost tail = choose|t: Trace| self.cleanup_post(&g1, gr, t);
        let ghost gr2 = ref_run(gr, tail);
//@before 1 Ok(self.output.clone())
        proof {
            let out = self.output@;
            let v = ver_num(old(self).state.version);
            assert(forall|i: int| 0 <= i < tail.len() ==> Generator::tail_op(#[trigger] tail[i].0, old(self).state.version)); // @C10
            assert(v >= 2 ==> out.len() >= 2 && out[0] == 0x80 && out[1] == v);
            assert(use_frame ==> v >= 4 && out.len() >= 11 && out[2] == 0x95); // @C06
            assert(use_frame ==> vstd::bytes::spec_u64_from_le_bytes(out.subrange(3, 11)) == out.len() - 11); // @C06
            assert(out.len() >= h);
            assert(out.subrange(h, out.len() as int) =~= flat(gch) + codes(tail) + seq![0x2eu8]); // @C04 @C06
            assert(gch.len() == target_opcodes as int); // @C11
            assert(old(self).min_opcodes < 0x7fff_0000 && old(self).max_opcodes < 0x7fff_0000 ==> target_opcodes < 0x7fff_0000);
            assert(old(self).min_opcodes < 0x7fff_0000 && old(self).max_opcodes < 0x7fff_0000 ==>
                old(self).min_opcodes <= gch.len() && gch.len() <= (if old(self).max_opcodes > old(self).min_opcodes { old(self).max_opcodes } else { old(self).min_opcodes })
                && forall|i: int| 0 <= i < gch.len() ==> (#[trigger] gch[i]).len() > 0); // @C11
            assert(self.gen_post_u(old(self), out, use_frame, gch, tail));
        }
//@endfn


    // ---- configuration API: what "enabled", "configured" and "without unsafe mutations" in the property
    // statements mean in terms of the fields the generation contracts talk about.  Every builder states the
    // whole frame: the field it sets and that every other field keeps its value.
    pub open spec fn cfg_eq_except(&self, o: &Generator, seed: bool, bufsize: bool, minmax: bool, muts: bool, rate: bool, uns: bool, ext: bool, buf: bool) -> bool {
        &&& self.state == o.state && self.output == o.output
        &&& (seed || self.seed == o.seed)
        &&& (bufsize || self.bufsize == o.bufsize)
        &&& (minmax || (self.min_opcodes == o.min_opcodes && self.max_opcodes == o.max_opcodes))
        &&& (muts || self.mutators == o.mutators)
        &&& (rate || self.mutation_rate == o.mutation_rate)
        &&& (uns || self.unsafe_mutations == o.unsafe_mutations)
        &&& (ext || self.allow_ext_opcodes == o.allow_ext_opcodes)
        &&& (buf || self.allow_buffer_opcodes == o.allow_buffer_opcodes)
    }
    /// what the properties need from a freshly constructed generator: nothing opted in (C10: "default output never requires an
    /// extension registry or buffer callbacks") and no output yet.  The numeric defaults (60..300 opcodes, rate 0.1), the absence
    /// of a seed and of mutators are documented behaviour but no property depends on them, so they are deliberately NOT stated:
    /// changing a default must not raise an alarm.
    pub open spec fn is_default_config(&self) -> bool {
        &&& !self.allow_ext_opcodes   // @C10
        &&& !self.allow_buffer_opcodes   // @C10
        &&& self.output@.len() == 0
    }

//@fn src/generator/mod.rs Generator::default as vf_default
//@ret res
//@props C10 C08 C11 C09
//@subst State::default() => vf_state_default()
//@subst mutators: Vec::new() => mutators: vf_mutators_empty()
//@contract
    ensures
        res.is_default_config(), // @C10 @C11
        !res.state.proto_emitted && res.state.stack.inner@.len() == 0 && res.state.memo@ == Map::<usize, StackObjectRef>::empty(),
//@endfn

//@fn src/generator/mod.rs Generator::new
//@ret res
//@props C10 C08 C11 C09
//@subst ..Default::default() => ..Self::vf_default()
//@contract
    ensures
        res.is_default_config(), // @C10 @C11
        res.state.version == version,
        !res.state.proto_emitted && res.state.stack.inner@.len() == 0 && res.state.memo@ == Map::<usize, StackObjectRef>::empty(),
//@endfn

//@fn src/generator/mod.rs Generator::with_seed
//@ret res
//@props C07 C10 C09
//@sigsubst mut self => self
//@rewrite R19
//@contract
    ensures res.seed == Some(seed), // @C07
        res.state == self.state && res.output == self.output, // @C08 @C05
        res.bufsize == self.bufsize, // @C07
        res.min_opcodes == self.min_opcodes && res.max_opcodes == self.max_opcodes, // @C11
        res.mutators == self.mutators, // @C15 @C16
        res.mutation_rate == self.mutation_rate, // @C15
        res.unsafe_mutations == self.unsafe_mutations, // @C03 @C01 @C02 @C04 @C17
        res.allow_ext_opcodes == self.allow_ext_opcodes, // @C10
        res.allow_buffer_opcodes == self.allow_buffer_opcodes, // @C10
//@endfn

//@fn src/generator/mod.rs Generator::with_buffer_size
//@ret res
//@props C10 C09
//@sigsubst mut self => self
//@rewrite R19
//@contract
    ensures res.bufsize == Some(size),
        res.state == self.state && res.output == self.output, // @C08 @C05
        res.seed == self.seed, // @C07
        res.min_opcodes == self.min_opcodes && res.max_opcodes == self.max_opcodes, // @C11
        res.mutators == self.mutators, // @C15 @C16
        res.mutation_rate == self.mutation_rate, // @C15
        res.unsafe_mutations == self.unsafe_mutations, // @C03 @C01 @C02 @C04 @C17
        res.allow_ext_opcodes == self.allow_ext_opcodes, // @C10
        res.allow_buffer_opcodes == self.allow_buffer_opcodes, // @C10
//@endfn

//@fn src/generator/mod.rs Generator::with_min_opcodes
//@ret res
//@props C11 C10 C09
//@sigsubst mut self => self
//@rewrite R19
//@contract
    ensures res.min_opcodes == min && res.max_opcodes == self.max_opcodes, // @C11
        res.state == self.state && res.output == self.output, // @C08 @C05
        res.seed == self.seed && res.bufsize == self.bufsize, // @C07
        res.mutators == self.mutators, // @C15 @C16
        res.mutation_rate == self.mutation_rate, // @C15
        res.unsafe_mutations == self.unsafe_mutations, // @C03 @C01 @C02 @C04 @C17
        res.allow_ext_opcodes == self.allow_ext_opcodes, // @C10
        res.allow_buffer_opcodes == self.allow_buffer_opcodes, // @C10
//@endfn

//@fn src/generator/mod.rs Generator::with_max_opcodes
//@ret res
//@props C11 C10 C09
//@sigsubst mut self => self
//@rewrite R19
//@contract
    ensures res.max_opcodes == max && res.min_opcodes == self.min_opcodes, // @C11
        res.state == self.state && res.output == self.output, // @C08 @C05
        res.seed == self.seed && res.bufsize == self.bufsize, // @C07
        res.mutators == self.mutators, // @C15 @C16
        res.mutation_rate == self.mutation_rate, // @C15
        res.unsafe_mutations == self.unsafe_mutations, // @C03 @C01 @C02 @C04 @C17
        res.allow_ext_opcodes == self.allow_ext_opcodes, // @C10
        res.allow_buffer_opcodes == self.allow_buffer_opcodes, // @C10
//@endfn

//@fn src/generator/mod.rs Generator::with_opcode_range
//@ret res
//@props C11 C10 C09
//@sigsubst mut self => self
//@rewrite R19
//@contract
    ensures res.min_opcodes == min && res.max_opcodes == max, // @C11
        res.state == self.state && res.output == self.output, // @C08 @C05
        res.seed == self.seed && res.bufsize == self.bufsize, // @C07
        res.mutators == self.mutators, // @C15 @C16
        res.mutation_rate == self.mutation_rate, // @C15
        res.unsafe_mutations == self.unsafe_mutations, // @C03 @C01 @C02 @C04 @C17
        res.allow_ext_opcodes == self.allow_ext_opcodes, // @C10
        res.allow_buffer_opcodes == self.allow_buffer_opcodes, // @C10
//@endfn

//@fn src/generator/mod.rs Generator::with_mutators
//@ret res
//@props C10 C15 C09
//@sigsubst mut self => self
//@sigsubst Vec<Box<dyn Mutator>> => VfMutators
//@rewrite R19
//@contract
    ensures res.mutators == mutators,
        res.state == self.state && res.output == self.output, // @C08 @C05
        res.seed == self.seed && res.bufsize == self.bufsize, // @C07
        res.min_opcodes == self.min_opcodes && res.max_opcodes == self.max_opcodes, // @C11
        res.mutation_rate == self.mutation_rate, // @C15
        res.unsafe_mutations == self.unsafe_mutations, // @C03 @C01 @C02 @C04 @C17
        res.allow_ext_opcodes == self.allow_ext_opcodes, // @C10
        res.allow_buffer_opcodes == self.allow_buffer_opcodes, // @C10
//@endfn

//@fn src/generator/mod.rs Generator::with_mutator
//@ret res
//@props C10 C15 C09
//@sigsubst mut self => self
//@sigsubst Box<dyn Mutator> => VfMutator
//@rewrite R19
//@subst vf_self.mutators.push(mutator) => vf_mutators_push(&mut vf_self.mutators, mutator)
//@contract
    ensures
        vf_mutators_len_spec(&res.mutators) == vf_mutators_len_spec(&self.mutators) + 1,
        res.state == self.state && res.output == self.output, // @C08 @C05
        res.seed == self.seed && res.bufsize == self.bufsize, // @C07
        res.min_opcodes == self.min_opcodes && res.max_opcodes == self.max_opcodes, // @C11
        res.mutation_rate == self.mutation_rate, // @C15
        res.unsafe_mutations == self.unsafe_mutations, // @C03 @C01 @C02 @C04 @C17
        res.allow_ext_opcodes == self.allow_ext_opcodes, // @C10
        res.allow_buffer_opcodes == self.allow_buffer_opcodes, // @C10
//@endfn

//@fn src/generator/mod.rs Generator::with_mutation_rate
//@ret res
//@props C10 C15 C09
//@sigsubst mut self => self
//@rewrite R19
//@subst rate.clamp(0.0, 1.0) => vf_clamp01(rate)
//@contract
    ensures
        // C15: a generator configured for rate 1.0 (0.0) really runs at that rate
        vf_rate_one(rate) ==> vf_rate_one(res.mutation_rate), // @C15
        vf_rate_zero(rate) ==> vf_rate_zero(res.mutation_rate), // @C15
        res.state == self.state && res.output == self.output, // @C08 @C05
        res.seed == self.seed && res.bufsize == self.bufsize, // @C07
        res.min_opcodes == self.min_opcodes && res.max_opcodes == self.max_opcodes, // @C11
        res.mutators == self.mutators, // @C15 @C16
        res.unsafe_mutations == self.unsafe_mutations, // @C03 @C01 @C02 @C04 @C17
        res.allow_ext_opcodes == self.allow_ext_opcodes, // @C10
        res.allow_buffer_opcodes == self.allow_buffer_opcodes, // @C10
//@endfn

//@fn src/generator/mod.rs Generator::with_unsafe_mutations
//@ret res
//@props C10 C03 C09
//@sigsubst mut self => self
//@rewrite R19
//@contract
    ensures res.unsafe_mutations == unsafe_mutations,
        res.state == self.state && res.output == self.output, // @C08 @C05
        res.seed == self.seed && res.bufsize == self.bufsize, // @C07
        res.min_opcodes == self.min_opcodes && res.max_opcodes == self.max_opcodes, // @C11
        res.mutators == self.mutators, // @C15 @C16
        res.mutation_rate == self.mutation_rate, // @C15
        res.allow_ext_opcodes == self.allow_ext_opcodes, // @C10
        res.allow_buffer_opcodes == self.allow_buffer_opcodes, // @C10
//@endfn

//@fn src/generator/mod.rs Generator::with_ext_opcodes
//@ret res
//@props C10 C09
//@sigsubst mut self => self
//@rewrite R19
//@contract
    ensures res.allow_ext_opcodes == allow, // @C10
        res.state == self.state && res.output == self.output, // @C08 @C05
        res.seed == self.seed && res.bufsize == self.bufsize, // @C07
        res.min_opcodes == self.min_opcodes && res.max_opcodes == self.max_opcodes, // @C11
        res.mutators == self.mutators, // @C15 @C16
        res.mutation_rate == self.mutation_rate, // @C15
        res.unsafe_mutations == self.unsafe_mutations, // @C03 @C01 @C02 @C04 @C17
        res.allow_buffer_opcodes == self.allow_buffer_opcodes, // @C10
//@endfn

//@fn src/generator/mod.rs Generator::with_buffer_opcodes
//@ret res
//@props C10 C09
//@sigsubst mut self => self
//@rewrite R19
//@contract
    ensures res.allow_buffer_opcodes == allow, // @C10
        res.state == self.state && res.output == self.output, // @C08 @C05
        res.seed == self.seed && res.bufsize == self.bufsize, // @C07
        res.min_opcodes == self.min_opcodes && res.max_opcodes == self.max_opcodes, // @C11
        res.mutators == self.mutators, // @C15 @C16
        res.mutation_rate == self.mutation_rate, // @C15
        res.unsafe_mutations == self.unsafe_mutations, // @C03 @C01 @C02 @C04 @C17
        res.allow_ext_opcodes == self.allow_ext_opcodes, // @C10
//@endfn

//@fn src/generator/mod.rs Generator::generate
//@ret res
//@props C07 C08 C09
//@sigsubst Result<Vec<u8>> => Result<Vec<u8>, VfError>
//@subst ChaCha8Rng::seed_from_u64(seed) => vf_rng_seed_from_u64(seed)
//@subst ChaCha8Rng::from_os_rng() => vf_rng_from_os()
//@subst GenerationSource::Rand(&mut rng) => vf_source_rand(&mut rng)
//@contract
    requires
        !old(self).unsafe_mutations,
        old(self).mutators_consistent(),
        old(self).min_opcodes < 0x1_0000_0000 && old(self).max_opcodes < 0x1_0000_0000,
    ensures
        res is Ok, // @C09
        // the configuration (seed included) is the same after the call: the next call on this generator sees the same knobs
        final(self).same_config_but_proto(old(self)), // @C08 @C07
//@before 1 self.generate_internal(
        // C07: with a seed set, the only entropy of the call is the ChaCha8 stream of that seed
        proof { assert(old(self).seed is Some ==> source.origin() == VfOrigin::Seed(old(self).seed->Some_0)); } // @C07
//@endfn

//@fn src/generator/mod.rs Generator::generate_from_arbitrary
//@ret res
//@props C07 C08 C09
//@sigsubst Result<Vec<u8>> => Result<Vec<u8>, VfError>
//@subst Unstructured::new(data) => vf_unstructured_new(data)
//@subst GenerationSource::Arbitrary(&mut u) => vf_source_arbitrary(&mut u)
//@contract
    requires
        !old(self).unsafe_mutations,
        old(self).mutators_consistent(),
        old(self).min_opcodes < 0x1_0000_0000 && old(self).max_opcodes < 0x1_0000_0000,
    ensures
        res is Ok, // @C09
        final(self).same_config_but_proto(old(self)), // @C08 @C07
//@before 1 self.generate_internal(
        // C07: the only entropy of the call is the caller's byte string
        proof { assert(source.origin() == VfOrigin::Bytes(data@)); } // @C07
//@endfn

}

} // verus!
fn main() {}
