// Unit "core": U1 (stack/util helpers), U2 (can_emit guards), U3 (process_stack_ops effects).
// Function bodies are pasted from /repo/src by lib/extract.py on every run.
use vstd::prelude::*;
use std::collections::{HashMap, HashSet};

verus! {
//@item src/opcodes.rs enum OpcodeKind
//@item src/protocol.rs enum Version
} // verus!

//@include build/gen/ref_tables_verus.rs
//@include contracts/refmachine.rs

verus! {
//@item src/stack.rs struct InstanceObject
//@item src/stack.rs enum StackObject
//@item src/stack.rs struct Stack
//@item src/state.rs struct State
//@item src/generator/mod.rs struct Generator
//@field-type mutators VfMutators
#[verifier::external_body]
pub struct VfMutators { inner: usize }
} // verus!

//@include contracts/shim.rs

verus! {

impl Stack {
    pub open spec fn view(&self) -> Seq<Kind> {
        Seq::new(self.inner@.len(), |i: int| self.inner@[i].kind())
    }

//@fn src/stack.rs Stack::reset
//@contract
    ensures final(self).view() == Seq::<Kind>::empty(),
//@endfn

//@fn src/stack.rs Stack::push
//@contract
    ensures final(self).view() == old(self).view().push(kind_of(value)),
//@after 1 self.inner.push(
        assert(self.view() =~= old(self).view().push(kind_of(value)));
//@endfn

//@fn src/stack.rs Stack::pop
//@ret r
//@contract
    ensures
        old(self).view().len() == 0 ==> r.is_none() && final(self).view() == old(self).view(),
        old(self).view().len() > 0 ==> r.is_some() && r.unwrap().kind() == old(self).view().last()
            && final(self).view() == old(self).view().drop_last(),
//@endfn

//@fn src/stack.rs Stack::peek
//@ret r
//@contract
    ensures
        self.view().len() == 0 ==> r.is_none(),
        self.view().len() > 0 ==> r.is_some() && r.unwrap().kind() == self.view().last(),
//@endfn

//@fn src/stack.rs Stack::len
//@ret r
//@contract
    ensures r == self.view().len(),
//@endfn
}

impl Generator {
    pub open spec fn view(&self) -> Seq<Kind> { self.state.stack.view() }

    /// simulated memo vs reference memo: same index set, compatible kinds, same size
    pub open spec fn memo_rel(&self, r: RefState) -> bool {
        &&& self.state.memo@.dom().finite()
        &&& forall|k: usize| #[trigger] self.state.memo@.dom().contains(k) <==> r.memo.dom().contains(k as int)
        &&& forall|k: int| #[trigger] r.memo.dom().contains(k) ==> 0 <= k <= usize::MAX
        &&& forall|k: usize| #[trigger] self.state.memo@.dom().contains(k) ==> compat(self.state.memo@[k].kind(), r.memo[k as int])
        &&& self.state.memo@.len() == r.memo_len
    }

    /// C17: the simulation mirrors the reference machine
    pub open spec fn rel(&self, r: RefState) -> bool {
        compat_stack(self.view(), r.stack) && self.memo_rel(r)
    }

//@fn src/generator/utils.rs Generator::peek
//@ret r
//@contract
    ensures
        self.view().len() == 0 ==> r.is_none(),
        self.view().len() > 0 ==> r.is_some() && r.unwrap().kind() == self.view().last(),
//@endfn

//@fn src/generator/utils.rs Generator::push
//@contract
    ensures
        final(self).view() == old(self).view().push(kind_of(value)),
        final(self).state.memo == old(self).state.memo,
        final(self).output == old(self).output,
//@endfn

//@fn src/generator/utils.rs Generator::pop
//@ret r
//@contract
    ensures
        old(self).view().len() == 0 ==> r.is_none() && final(self).view() == old(self).view(),
        old(self).view().len() > 0 ==> r.is_some() && r.unwrap().kind() == old(self).view().last()
            && final(self).view() == old(self).view().drop_last(),
        final(self).state.memo == old(self).state.memo,
        final(self).output == old(self).output,
//@endfn

//@fn src/generator/utils.rs Generator::peek_at
//@ret r
//@contract
    ensures
        depth >= self.view().len() ==> r.is_none(),
        depth < self.view().len() ==> r.is_some() && r.unwrap().kind() == at(self.view(), depth as int),
//@endfn

//@fn src/generator/utils.rs Generator::is_list_at
//@ret r
//@contract
    ensures r == (depth < self.view().len() && at(self.view(), depth as int) == Kind::List),
//@endfn

//@fn src/generator/utils.rs Generator::is_dict_at
//@ret r
//@contract
    ensures r == (depth < self.view().len() && at(self.view(), depth as int) == Kind::Dict),
//@endfn

//@fn src/generator/utils.rs Generator::is_tuple_at
//@ret r
//@contract
    ensures r == (depth < self.view().len() && at(self.view(), depth as int) == Kind::Tuple),
//@endfn

//@fn src/generator/utils.rs Generator::is_instance_at
//@ret r
//@contract
    ensures r == (depth < self.view().len() && at(self.view(), depth as int) == Kind::Instance),
//@endfn

//@fn src/generator/utils.rs Generator::is_string_at
//@ret r
//@contract
    ensures r == (depth < self.view().len() && at(self.view(), depth as int) == Kind::String),
//@endfn

//@fn src/generator/utils.rs Generator::is_callable_at
//@ret r
//@contract
    ensures r == (depth < self.view().len()
        && (at(self.view(), depth as int) == Kind::Callable || at(self.view(), depth as int) == Kind::Global)),
//@endfn

//@fn src/generator/utils.rs Generator::has_mark
//@ret r
//@rewrite R3
//@contract
    ensures r == (top_mark(self.view()) >= 0),
//@loop 1
            invariant
                vf_i <= self.state.stack.inner.len(),
                forall|j: int| 0 <= j < vf_i ==> self.view()[j] != Kind::Mark,
            decreases self.state.stack.inner.len() - vf_i,
//@before 1 return true;
                proof { lemma_top_mark_props(self.view()); assert(self.view()[vf_i as int] == Kind::Mark);
                        if top_mark(self.view()) < 0 { assert(self.view()[vf_i as int] != Kind::Mark); } }
//@before 1 false
        proof { lemma_top_mark_props(self.view()); }
//@endfn

//@fn src/generator/utils.rs Generator::count_items_to_mark
//@ret r
//@rewrite R2
//@contract
    ensures
        top_mark(self.view()) >= 0 ==> r.is_some() && r.unwrap() as int == self.view().len() - 1 - top_mark(self.view()),
        top_mark(self.view()) < 0 ==> r.is_none(),
//@loop 1
            invariant
                vf_c <= self.state.stack.inner.len(),
                forall|j: int| self.view().len() - vf_c <= j < self.view().len() ==> self.view()[j] != Kind::Mark,
            decreases self.state.stack.inner.len() - vf_c,
//@before 1 return Some(count);
                proof { lemma_top_mark_unique(self.view(), self.view().len() - 1 - count); }
//@before 1 None
        proof { lemma_top_mark_unique(self.view(), -1); }
//@endfn

//@fn src/generator/utils.rs Generator::is_list_at_mark
//@ret r
//@rewrite R1
//@contract
    ensures r == (top_mark(self.view()) >= 1 && self.view()[top_mark(self.view()) - 1] == Kind::List),
//@loop 1
            invariant
                vf_n <= self.state.stack.inner.len(),
                forall|j: int| vf_n <= j < self.view().len() ==> self.view()[j] != Kind::Mark,
            decreases vf_n,
//@before 1 if idx > 0 {
                proof { lemma_top_mark_unique(self.view(), idx as int); }
//@before 1 false
        proof { lemma_top_mark_unique(self.view(), -1); }
//@endfn

//@fn src/generator/utils.rs Generator::is_dict_at_mark
//@ret r
//@rewrite R1
//@contract
    ensures r == (top_mark(self.view()) >= 1 && self.view()[top_mark(self.view()) - 1] == Kind::Dict),
//@loop 1
            invariant
                vf_n <= self.state.stack.inner.len(),
                forall|j: int| vf_n <= j < self.view().len() ==> self.view()[j] != Kind::Mark,
            decreases vf_n,
//@before 1 if idx > 0 {
                proof { lemma_top_mark_unique(self.view(), idx as int); }
//@before 1 false
        proof { lemma_top_mark_unique(self.view(), -1); }
//@endfn

//@fn src/generator/utils.rs Generator::is_set_at_mark
//@ret r
//@rewrite R1
//@contract
    ensures r == (top_mark(self.view()) >= 1 && self.view()[top_mark(self.view()) - 1] == Kind::Set),
//@loop 1
            invariant
                vf_n <= self.state.stack.inner.len(),
                forall|j: int| vf_n <= j < self.view().len() ==> self.view()[j] != Kind::Mark,
            decreases vf_n,
//@before 1 if idx > 0 {
                proof { lemma_top_mark_unique(self.view(), idx as int); }
//@before 1 false
        proof { lemma_top_mark_unique(self.view(), -1); }
//@endfn

//@fn src/generator/utils.rs Generator::is_callable_above_mark
//@ret r
//@rewrite R1
//@contract
    ensures r == (top_mark(self.view()) >= 0 && top_mark(self.view()) + 1 < self.view().len()
        && (self.view()[top_mark(self.view()) + 1] == Kind::Callable || self.view()[top_mark(self.view()) + 1] == Kind::Global)),
//@loop 1
            invariant
                vf_n <= self.state.stack.inner.len(),
                forall|j: int| vf_n <= j < self.view().len() ==> self.view()[j] != Kind::Mark,
            decreases vf_n,
//@before 1 let above_idx
                proof { lemma_top_mark_unique(self.view(), idx as int); }
//@before 1 false
        proof { lemma_top_mark_unique(self.view(), -1); }
//@endfn

    /// what a `true` answer of can_emit must imply (C01 stack, C02 memo side, C03 kinds, C10 flags,
    /// C06 no FRAME, never STOP, PROTO at most once)
    pub open spec fn guard_ok(&self, op: OpcodeKind, r: RefState) -> bool {
        &&& op != OpcodeKind::Stop && op != OpcodeKind::Frame
        &&& ref_pre_stack(op, r)
        &&& !self.unsafe_mutations ==> ref_pre_kind(op, r)
        &&& is_get(op) ==> self.state.memo@.len() > 0
        &&& (is_put(op) || op == OpcodeKind::Memoize) ==> r.stack.len() >= 1 && r.stack.last() != Kind::Mark
        &&& (op == OpcodeKind::Ext1 || op == OpcodeKind::Ext2 || op == OpcodeKind::Ext4) ==> self.allow_ext_opcodes
        &&& (op == OpcodeKind::NextBuffer || op == OpcodeKind::ReadOnlyBuffer) ==> self.allow_buffer_opcodes
        &&& op == OpcodeKind::Proto ==> !self.state.proto_emitted
    }

//@arms src/generator/validation.rs Generator::can_emit opcode
//@ret res
//@ghost Ghost(r): Ghost<RefState>
//@rewrite R11?
//@prelude
        proof { lemma_top_mark_compat(self.view(), r.stack); lemma_top_mark_props(r.stack); }
//@contract
    requires
        self.rel(r),
    ensures
        res ==> self.guard_ok(opcode, r),
//@arm SetItems
//@prelude
        assert(self.view().len() == r.stack.len());
        assert(items_above_mark(r.stack) == self.view().len() - 1 - top_mark(self.view()));
//@arm Dict
//@prelude
        assert(self.view().len() == r.stack.len());
        assert(items_above_mark(r.stack) == self.view().len() - 1 - top_mark(self.view()));

//@endfn

}

} // verus!
fn main() {}
