#![feature(allocator_api)]
#![allow(unused, non_snake_case, deprecated)]
// Unit "core": U1 (stack/util helpers), U2 (can_emit guards), U3 (process_stack_ops effects).
// Function bodies are pasted from /repo/src by lib/extract.py on every run.
use vstd::prelude::*;
use std::collections::{HashMap, HashSet};

verus! {
global size_of usize == 8;
#[derive(Clone, Copy, PartialEq, Eq, Structural)]
//@item src/opcodes.rs enum OpcodeKind
#[derive(Clone, Copy, PartialEq, Eq, PartialOrd, Ord, Structural)]
//@item src/protocol.rs enum Version
} // verus!

//@include build/gen/ref_tables_verus.rs
//@include contracts/refmachine.rs

verus! {
//@item src/stack.rs struct InstanceObject
//@item src/stack.rs enum StackObject
//@item src/stack.rs struct Stack
//@item src/state.rs struct State
//@item src/generator/mod.rs struct Generator
//@field-type mutators VfMutators
#[verifier::external_body]
pub struct VfMutators { inner: usize }
#[verifier::external_body]
pub struct VfSnapshot { inner: usize }
pub struct VfError { pub code: u8 }
} // verus!

//@include contracts/shim.rs

verus! {

impl OpcodeKind {
//@fn src/opcodes.rs OpcodeKind::as_u8
//@ret r
//@props C04 C05 C06 C10
//@contract
    ensures r as int == ref_code(self), // @C04
//@endfn
}

impl Stack {
    pub open spec fn view(&self) -> Seq<Kind> {
        Seq::new(self.inner@.len(), |i: int| self.inner@[i].kind())
    }

//@fn src/stack.rs Stack::reset
//@props C01 C02 C03 C05 C06 C10 C11 C17
//@contract
    ensures final(self).view() == Seq::<Kind>::empty(),
//@endfn

//@fn src/stack.rs Stack::push
//@props C01 C02 C03 C05 C06 C10 C11 C17
//@contract
    ensures final(self).view() == old(self).view().push(kind_of(value)),
//@after 1 self.inner.push(
        assert(self.view() =~= old(self).view().push(kind_of(value)));
//@endfn

//@fn src/stack.rs Stack::pop
//@props C01 C02 C03 C05 C06 C10 C11 C17
//@ret r
//@contract
    ensures
        old(self).view().len() == 0 ==> r.is_none() && final(self).view() == old(self).view(),
        old(self).view().len() > 0 ==> r.is_some() && r.unwrap().kind() == old(self).view().last()
            && final(self).view() == old(self).view().drop_last(),
//@endfn

//@fn src/stack.rs Stack::peek
//@props C01 C02 C03 C05 C06 C10 C11 C17
//@ret r
//@contract
    ensures
        self.view().len() == 0 ==> r.is_none(),
        self.view().len() > 0 ==> r.is_some() && r.unwrap().kind() == self.view().last(),
//@endfn

//@fn src/stack.rs Stack::len
//@props C01 C02 C03 C05 C06 C10 C11 C17
//@ret r
//@contract
    ensures r == self.view().len(),
//@endfn
}

pub open spec fn le_u32(b: Seq<u8>) -> int {
    vstd::bytes::spec_u32_from_le_bytes(seq![b[0], b[1], b[2], b[3]]) as int
}

/// what the emitters guarantee about the argument bytes handed to process_stack_ops (U6, Kani side):
/// the bytes are complete for the opcode's format and, for memo opcodes, denote the index `a.idx`
pub open spec fn arg_link(op: OpcodeKind, arg_bytes: Option<&[u8]>, a: RefArg) -> bool {
    let some = arg_bytes.is_some();
    let b = arg_bytes.unwrap()@;
    match op {
        OpcodeKind::Put | OpcodeKind::Get =>
            some && vf_parse_index(b) == Some(a.idx as usize) && 0 <= a.idx <= usize::MAX,
        OpcodeKind::BinPut | OpcodeKind::BinGet =>
            some && b.len() >= 1 && b[0] as int == a.idx,
        OpcodeKind::LongBinPut | OpcodeKind::LongBinGet =>
            some && b.len() >= 4 && le_u32(b) == a.idx,
        OpcodeKind::BinInt => some && b.len() >= 4,
        OpcodeKind::BinInt1 => some && b.len() >= 1,
        OpcodeKind::BinInt2 => some && b.len() >= 2,
        OpcodeKind::BinFloat => some && b.len() >= 8,
        OpcodeKind::Long1 => some && b.len() >= 1 && b.len() > b[0] as int,
        OpcodeKind::Long4 => some && b.len() >= 4 && b.len() >= 4 + le_u32(b),
        OpcodeKind::Global | OpcodeKind::Inst => some && vf_line_parts(b) >= 2,
        OpcodeKind::PersID => some,
        _ => true,
    }
}

impl Generator {
    pub open spec fn view(&self) -> Seq<Kind> { self.state.stack.view() }

    /// simulated memo vs reference memo: same index set and size
    pub open spec fn memo_dom_rel(&self, r: RefState) -> bool {
        &&& forall|k: usize| #[trigger] self.state.memo@.dom().contains(k) <==> r.memo.dom().contains(k as int)
        &&& forall|k: int| #[trigger] r.memo.dom().contains(k) ==> 0 <= k <= usize::MAX
        &&& self.state.memo@.len() == r.memo_len
    }
    /// ... and compatible kinds
    pub open spec fn memo_kinds_rel(&self, r: RefState) -> bool {
        forall|k: usize| #[trigger] self.state.memo@.dom().contains(k) ==> compat(self.state.memo@[k].kind(), r.memo[k as int])
    }
    pub open spec fn memo_rel(&self, r: RefState) -> bool {
        self.memo_dom_rel(r) && self.memo_kinds_rel(r)
    }

    /// C17: the simulation mirrors the reference machine
    pub open spec fn rel(&self, r: RefState) -> bool {
        compat_stack(self.view(), r.stack) && self.memo_rel(r)
    }

//@fn src/generator/utils.rs Generator::peek
//@props C01 C02 C03 C05 C06 C10 C11 C17
//@ret r
//@contract
    ensures
        self.view().len() == 0 ==> r.is_none(),
        self.view().len() > 0 ==> r.is_some() && r.unwrap().kind() == self.view().last(),
//@endfn

//@fn src/generator/utils.rs Generator::push
//@props C01 C02 C03 C05 C06 C10 C11 C17
//@contract
    ensures
        final(self).view() == old(self).view().push(kind_of(value)),
        final(self).state.memo == old(self).state.memo,
        final(self).output == old(self).output,
        final(self).same_config(old(self)),
//@endfn

//@fn src/generator/utils.rs Generator::pop
//@props C01 C02 C03 C05 C06 C10 C11 C17
//@ret r
//@contract
    ensures
        old(self).view().len() == 0 ==> r.is_none() && final(self).view() == old(self).view(),
        old(self).view().len() > 0 ==> r.is_some() && r.unwrap().kind() == old(self).view().last()
            && final(self).view() == old(self).view().drop_last(),
        final(self).state.memo == old(self).state.memo,
        final(self).output == old(self).output,
        final(self).same_config(old(self)),
//@endfn

//@fn src/generator/utils.rs Generator::get
//@props C01 C02 C03 C05 C06 C10 C11 C17
//@ret r
//@contract
    ensures
        !self.state.memo@.dom().contains(index) ==> r.is_none(),
        self.state.memo@.dom().contains(index) ==> r.is_some() && r.unwrap().kind() == self.state.memo@[index].kind(),
//@endfn

//@fn src/generator/utils.rs Generator::put
//@props C01 C02 C03 C05 C06 C10 C11 C17
//@contract
    ensures
        final(self).state.memo@.dom() == old(self).state.memo@.dom().insert(index),
        final(self).state.memo@[index].kind() == kind_of(value),
        forall|k: usize| k != index && old(self).state.memo@.dom().contains(k) ==> final(self).state.memo@[k] == old(self).state.memo@[k],
        final(self).state.stack == old(self).state.stack,
        final(self).output == old(self).output,
        final(self).same_config(old(self)),
//@endfn

//@fn src/generator/utils.rs Generator::peek_at
//@props C01 C02 C03 C05 C06 C10 C11 C17
//@ret r
//@contract
    ensures
        depth >= self.view().len() ==> r.is_none(),
        depth < self.view().len() ==> r.is_some() && r.unwrap().kind() == at(self.view(), depth as int),
//@endfn

//@fn src/generator/utils.rs Generator::is_list_at
//@props C01 C02 C03 C05 C06 C10 C11 C17
//@ret r
//@contract
    ensures r == (depth < self.view().len() && at(self.view(), depth as int) == Kind::List),
//@endfn

//@fn src/generator/utils.rs Generator::is_dict_at
//@props C01 C02 C03 C05 C06 C10 C11 C17
//@ret r
//@contract
    ensures r == (depth < self.view().len() && at(self.view(), depth as int) == Kind::Dict),
//@endfn

//@fn src/generator/utils.rs Generator::is_tuple_at
//@props C01 C02 C03 C05 C06 C10 C11 C17
//@ret r
//@contract
    ensures r == (depth < self.view().len() && at(self.view(), depth as int) == Kind::Tuple),
//@endfn

//@fn src/generator/utils.rs Generator::is_instance_at
//@props C01 C02 C03 C05 C06 C10 C11 C17
//@ret r
//@contract
    ensures r == (depth < self.view().len() && at(self.view(), depth as int) == Kind::Instance),
//@endfn

//@fn src/generator/utils.rs Generator::is_string_at
//@props C01 C02 C03 C05 C06 C10 C11 C17
//@ret r
//@contract
    ensures r == (depth < self.view().len() && at(self.view(), depth as int) == Kind::String),
//@endfn

//@fn src/generator/utils.rs Generator::is_callable_at
//@props C01 C02 C03 C05 C06 C10 C11 C17
//@ret r
//@contract
    ensures r == (depth < self.view().len()
        && (at(self.view(), depth as int) == Kind::Callable || at(self.view(), depth as int) == Kind::Global)),
//@endfn

//@fn src/generator/utils.rs Generator::has_mark
//@props C01 C02 C03 C05 C06 C10 C11 C17
//@ret r
//@rewrite R3
//@contract
    ensures r == (top_mark(self.view()) >= 0),
//@loop 1
            invariant
                vf_i <= self.state.stack.inner.len(),
                forall|j: int| 0 <= j < vf_i ==> self.view()[j] != Kind::Mark,
            decreases self.state.stack.inner.len() - vf_i,
//@before 1 return true;
                proof { lemma_top_mark_props(self.view()); assert(self.view()[vf_i as int] == Kind::Mark);
                        if top_mark(self.view()) < 0 { assert(self.view()[vf_i as int] != Kind::Mark); } }
//@before 1 false
        proof { lemma_top_mark_props(self.view()); }
//@endfn

//@fn src/generator/utils.rs Generator::count_items_to_mark
//@props C01 C02 C03 C05 C06 C10 C11 C17
//@ret r
//@rewrite R2
//@contract
    ensures
        top_mark(self.view()) >= 0 ==> r.is_some() && r.unwrap() as int == self.view().len() - 1 - top_mark(self.view()),
        top_mark(self.view()) < 0 ==> r.is_none(),
//@loop 1
            invariant
                vf_c <= self.state.stack.inner.len(),
                forall|j: int| self.view().len() - vf_c <= j < self.view().len() ==> self.view()[j] != Kind::Mark,
            decreases self.state.stack.inner.len() - vf_c,
//@before 1 return Some(count);
                proof { lemma_top_mark_unique(self.view(), self.view().len() - 1 - count); }
//@before 1 None
        proof { lemma_top_mark_unique(self.view(), -1); }
//@endfn

//@fn src/generator/utils.rs Generator::is_list_at_mark
//@props C01 C02 C03 C05 C06 C10 C11 C17
//@ret r
//@rewrite R1
//@contract
    ensures r == (top_mark(self.view()) >= 1 && self.view()[top_mark(self.view()) - 1] == Kind::List),
//@loop 1
            invariant
                vf_n <= self.state.stack.inner.len(),
                forall|j: int| vf_n <= j < self.view().len() ==> self.view()[j] != Kind::Mark,
            decreases vf_n,
//@before 1 if idx > 0 {
                proof { lemma_top_mark_unique(self.view(), idx as int); }
//@before 1 false
        proof { lemma_top_mark_unique(self.view(), -1); }
//@endfn

//@fn src/generator/utils.rs Generator::is_dict_at_mark
//@props C01 C02 C03 C05 C06 C10 C11 C17
//@ret r
//@rewrite R1
//@contract
    ensures r == (top_mark(self.view()) >= 1 && self.view()[top_mark(self.view()) - 1] == Kind::Dict),
//@loop 1
            invariant
                vf_n <= self.state.stack.inner.len(),
                forall|j: int| vf_n <= j < self.view().len() ==> self.view()[j] != Kind::Mark,
            decreases vf_n,
//@before 1 if idx > 0 {
                proof { lemma_top_mark_unique(self.view(), idx as int); }
//@before 1 false
        proof { lemma_top_mark_unique(self.view(), -1); }
//@endfn

//@fn src/generator/utils.rs Generator::is_set_at_mark
//@props C01 C02 C03 C05 C06 C10 C11 C17
//@ret r
//@rewrite R1
//@contract
    ensures r == (top_mark(self.view()) >= 1 && self.view()[top_mark(self.view()) - 1] == Kind::Set),
//@loop 1
            invariant
                vf_n <= self.state.stack.inner.len(),
                forall|j: int| vf_n <= j < self.view().len() ==> self.view()[j] != Kind::Mark,
            decreases vf_n,
//@before 1 if idx > 0 {
                proof { lemma_top_mark_unique(self.view(), idx as int); }
//@before 1 false
        proof { lemma_top_mark_unique(self.view(), -1); }
//@endfn

//@fn src/generator/utils.rs Generator::is_callable_above_mark
//@props C01 C02 C03 C05 C06 C10 C11 C17
//@ret r
//@rewrite R1
//@contract
    ensures r == (top_mark(self.view()) >= 0 && top_mark(self.view()) + 1 < self.view().len()
        && (self.view()[top_mark(self.view()) + 1] == Kind::Callable || self.view()[top_mark(self.view()) + 1] == Kind::Global)),
//@loop 1
            invariant
                vf_n <= self.state.stack.inner.len(),
                forall|j: int| vf_n <= j < self.view().len() ==> self.view()[j] != Kind::Mark,
            decreases vf_n,
//@before 1 let above_idx
                proof { lemma_top_mark_unique(self.view(), idx as int); }
//@before 1 false
        proof { lemma_top_mark_unique(self.view(), -1); }
//@endfn

    /// what a `true` answer of can_emit must imply (C01 stack, C02 memo side, C03 kinds, C10 flags,
    /// C06 no FRAME, never STOP, PROTO at most once)
    pub open spec fn guard_ok(&self, op: OpcodeKind, r: RefState) -> bool {
        &&& op != OpcodeKind::Stop && op != OpcodeKind::Frame
        &&& ref_pre_stack(op, r)
        &&& !self.unsafe_mutations ==> ref_pre_kind(op, r)
        &&& is_get(op) ==> self.state.memo@.len() > 0
        &&& (is_put(op) || op == OpcodeKind::Memoize) ==> r.stack.len() >= 1 && r.stack.last() != Kind::Mark
        &&& (op == OpcodeKind::Ext1 || op == OpcodeKind::Ext2 || op == OpcodeKind::Ext4) ==> self.allow_ext_opcodes
        &&& (op == OpcodeKind::NextBuffer || op == OpcodeKind::ReadOnlyBuffer) ==> self.allow_buffer_opcodes
        &&& op == OpcodeKind::Proto ==> !self.state.proto_emitted
        &&& op == OpcodeKind::BinPut ==> self.state.memo@.len() < 256
        &&& self.sim_pre(op)
    }

    /// simulation-side facts a guard establishes that process_stack_ops relies on (STACK_GLOBAL only
    /// pushes its result when it sees two String cells)
    pub open spec fn sim_pre(&self, op: OpcodeKind) -> bool {
        op == OpcodeKind::StackGlobal && !self.unsafe_mutations ==>
            self.view().len() >= 2 && at(self.view(), 0) == Kind::String && at(self.view(), 1) == Kind::String
    }

//@arms src/generator/validation.rs Generator::can_emit opcode
//@ret res
//@ghost Ghost(r): Ghost<RefState>
//@rewrite R11?
//@prelude
        proof { lemma_top_mark_compat(self.view(), r.stack); lemma_top_mark_props(r.stack); }
//@props C01 C02 C03 C05 C06 C10 C17
//@contract
    requires
        self.rel(r),
    ensures
        res ==> opcode != OpcodeKind::Stop && opcode != OpcodeKind::Frame, // @C01 @C06
        res ==> ref_pre_stack(opcode, r), // @C01
        res && !self.unsafe_mutations ==> ref_pre_kind(opcode, r), // @C03
        res && is_get(opcode) ==> self.state.memo@.len() > 0, // @C02
        res && (is_put(opcode) || opcode == OpcodeKind::Memoize) ==> r.stack.len() >= 1 && r.stack.last() != Kind::Mark, // @C02
        res && (opcode == OpcodeKind::Ext1 || opcode == OpcodeKind::Ext2 || opcode == OpcodeKind::Ext4) ==> self.allow_ext_opcodes, // @C10
        res && (opcode == OpcodeKind::NextBuffer || opcode == OpcodeKind::ReadOnlyBuffer) ==> self.allow_buffer_opcodes, // @C10
        res && opcode == OpcodeKind::Proto ==> !self.state.proto_emitted, // @C05
        res && opcode == OpcodeKind::BinPut ==> self.state.memo@.len() < 256, // @C02
        res ==> self.sim_pre(opcode), // @C17
        res ==> self.guard_ok(opcode, r),
//@arm SetItems
//@prelude
        assert(self.view().len() == r.stack.len());
        assert(items_above_mark(r.stack) == self.view().len() - 1 - top_mark(self.view()));
//@arm Dict
//@prelude
        assert(self.view().len() == r.stack.len());
        assert(items_above_mark(r.stack) == self.view().len() - 1 - top_mark(self.view()));

//@endfn

    pub open spec fn same_config(&self, o: &Generator) -> bool {
        &&& self.state.version == o.state.version
        &&& self.state.proto_emitted == o.state.proto_emitted
        &&& self.seed == o.seed && self.bufsize == o.bufsize
        &&& self.min_opcodes == o.min_opcodes && self.max_opcodes == o.max_opcodes
        &&& self.mutators == o.mutators && self.mutation_rate == o.mutation_rate
        &&& self.unsafe_mutations == o.unsafe_mutations
        &&& self.allow_ext_opcodes == o.allow_ext_opcodes
        &&& self.allow_buffer_opcodes == o.allow_buffer_opcodes
    }

    /// loop invariant of the `while let Some(item) = self.pop()` collapse loops: a prefix of the
    /// entry stack that still contains the topmost MARK
    pub open spec fn popping(&self, o: &Generator) -> bool {
        &&& self.view().len() <= o.view().len()
        &&& self.view() =~= o.view().subrange(0, self.view().len() as int)
        &&& 0 <= top_mark(o.view()) < self.view().len()
        &&& self.state.memo == o.state.memo && self.output == o.output && self.same_config(o)
    }
    pub open spec fn popped_to_mark(&self, o: &Generator) -> bool {
        &&& top_mark(o.view()) >= 0
        &&& self.view() =~= o.view().subrange(0, top_mark(o.view()))
        &&& self.state.memo == o.state.memo && self.output == o.output && self.same_config(o)
    }

//@define POP_TO_MARK_LOOP
//@loop 1
                    invariant_except_break self.popping(old(self)),
                    ensures self.popped_to_mark(old(self)),
                    decreases self.view().len(),
//@after 1 while let Some(item) = self.pop()
                    proof { lemma_top_mark_props(old(self).view()); }
//@enddef

//@define PAIR_LOOP
//@loop 1
                    invariant_except_break
                        self.popping(old(self)),
                        (self.view().len() - 1 - top_mark(old(self).view())) % 2 == 0,
                    ensures self.popped_to_mark(old(self)),
                    decreases self.view().len(),
//@after 1 while let Some(value) = self.pop()
                    proof { lemma_top_mark_props(old(self).view()); }
//@enddef

//@arms src/generator/stack_ops.rs Generator::process_stack_ops opcode
//@ghost Ghost(r): Ghost<RefState>, Ghost(a): Ghost<RefArg>
//@props C01 C02 C03 C17
//@prelude
        proof { lemma_top_mark_compat(self.view(), r.stack); lemma_top_mark_props(r.stack); }
//@contract
    requires
        old(self).rel(r),
        !old(self).unsafe_mutations,
        ref_pre(opcode, a, r),
        old(self).sim_pre(opcode),
        arg_link(opcode, arg_bytes, a),
    ensures
        shape_eq(final(self).view(), sim_step(opcode, a, r).stack), // @C01 @C03 @C17
        kinds_ok(final(self).view(), sim_step(opcode, a, r).stack), // @C03 @C17
        final(self).memo_dom_rel(sim_step(opcode, a, r)), // @C02 @C17
        final(self).memo_kinds_rel(sim_step(opcode, a, r)), // @C03 @C17
        final(self).rel(sim_step(opcode, a, r)),
        final(self).output == old(self).output, // @C04 @C06
        final(self).same_config(old(self)), // @C05 @C10
//@arm Dup
//@after 1 self.state.stack.inner.push(top.clone());
                        assert(self.view() =~= old(self).view().push(old(self).view().last()));
//@arm PopMark
//@use POP_TO_MARK_LOOP
//@arm Appends
//@use POP_TO_MARK_LOOP
//@arm List
//@use POP_TO_MARK_LOOP
//@arm Tuple
//@use POP_TO_MARK_LOOP
//@arm AddItems
//@use POP_TO_MARK_LOOP
//@arm FrozenSet
//@use POP_TO_MARK_LOOP
//@arm Obj
//@loop 1
                    invariant_except_break
                        self.popping(old(self)),
                        accumulated@.len() == old(self).view().len() - self.view().len(),
                    ensures
                        self.popped_to_mark(old(self)),
                        accumulated@.len() == old(self).view().len() - 1 - top_mark(old(self).view()),
                    decreases self.view().len(),
//@after 1 while let Some(item) = self.pop()
                    proof { lemma_top_mark_props(old(self).view()); }
//@arm Dict
//@use PAIR_LOOP
//@arm SetItems
//@use PAIR_LOOP
//@arm Int
//@subst if let Ok(value_str) = std::str::from_utf8(arg_bytes) { ... } else { 0 } => vf_parse_i64(arg_bytes)
//@arm Long
//@subst if let Ok(value_str) = std::str::from_utf8(arg_bytes) { ... } else { 0 } => vf_parse_i64(arg_bytes)
//@arm Float
//@subst if let Ok(value_str) = std::str::from_utf8(arg_bytes) { ... } else { 0.0 } => vf_parse_f64(arg_bytes)
//@arm BinInt
//@subst i32::from_le_bytes( => vf_i32_from_le_bytes(
//@arm BinInt2
//@subst u16::from_le_bytes( => vf_u16_from_le_bytes(
//@arm BinFloat
//@subst f64::from_be_bytes( => vf_f64_from_be_bytes(
//@arm Long1
//@subst for (i, &b) in ... { ... } => value = vf_le_bytes_to_i64(int_bytes);
//@arm Long4
//@subst for (i, &b) in ... { ... } => value = vf_le_bytes_to_i64(int_bytes);
//@subst u32::from_le_bytes( => vf_u32_from_le_bytes(
//@arm String | ShortBinUnicode | Unicode | BinUnicode | BinUnicode8
//@subst std::string::String::from_utf8_lossy( => vf_from_utf8_lossy(
//@arm BinString | ShortBinString | BinBytes | ShortBinBytes | BinBytes8
//@subst arg_bytes.to_vec() => vf_to_vec(arg_bytes)
//@arm ByteArray8
//@subst arg_bytes.to_vec() => vf_to_vec(arg_bytes)
//@arm Global
//@subst std::string::String::from_utf8_lossy( => vf_from_utf8_lossy(
//@subst full_string.split('\n').collect() => vf_split_lines(&full_string)
//@subst Vec<&str> => Vec<VfStr>
//@arm Inst
//@use POP_TO_MARK_LOOP
//@subst std::string::String::from_utf8_lossy( => vf_from_utf8_lossy(
//@subst full_string.split('\n').collect() => vf_split_lines(&full_string)
//@subst Vec<&str> => Vec<VfStr>
//@arm PersID
//@subst std::string::String::from_utf8_lossy( => vf_from_utf8_lossy(
//@arm Get
//@subst if let Ok(index_str) = std::str::from_utf8(arg_bytes) { if let Ok(index) = index_str.trim().parse() { ... } } => if let Some(index) = vf_parse_usize(arg_bytes) { $1 }
//@arm Put
//@subst if let Ok(index_str) = std::str::from_utf8(arg_bytes) { if let Ok(index) = index_str.trim().parse() { ... } } => if let Some(index) = vf_parse_usize(arg_bytes) { $1 }
//@arm LongBinGet
//@subst u32::from_le_bytes( => vf_u32_from_le_bytes(
//@arm LongBinPut
//@subst u32::from_le_bytes( => vf_u32_from_le_bytes(
//@endfn

//@fn src/generator/emission.rs Generator::emit_opcode
//@ghost Ghost(r): Ghost<RefState>
//@props C01 C02 C03 C04 C05 C17
//@rewrite R14 process_stack_ops self.process_stack_ops($ARGS, Ghost(r), Ghost(RefArg { idx: 0 }))
//@contract
    requires
        old(self).rel(r),
        !old(self).unsafe_mutations,
        ref_pre(opcode, RefArg { idx: 0 }, r),
        old(self).sim_pre(opcode),
        arg_link(opcode, None, RefArg { idx: 0 }),
    ensures
        final(self).rel(sim_step(opcode, RefArg { idx: 0 }, r)), // @C17 @C01
        final(self).output@ == old(self).output@.push(ref_code(opcode) as u8), // @C04
        final(self).same_config(old(self)),
//@endfn

    /// opcodes the stack-collapse phase may use (C05: all available in the requested protocol)
    pub open spec fn tail_op(op: OpcodeKind, v: Version) -> bool {
        (op == OpcodeKind::Tuple || op == OpcodeKind::Tuple2 || op == OpcodeKind::Tuple3
            || op == OpcodeKind::Pop || op == OpcodeKind::None)
        && ref_proto(op) <= ver_num(v)
    }

    pub open spec fn cleanup_post(&self, o: &Generator, r: RefState, t: Trace) -> bool {
        &&& ref_run_ok(r, t)                                   // every tail opcode is legal (C01)
        &&& self.rel(ref_run(r, t))
        &&& ref_run(r, t).stack.len() == 1 && ref_run(r, t).stack[0] != Kind::Mark   // exactly one object for STOP
        &&& ref_run(r, t).memo == r.memo && ref_run(r, t).memo_len == r.memo_len
        &&& self.output@ == o.output@ + codes(t)
        &&& forall|i: int| 0 <= i < t.len() ==> Generator::tail_op(#[trigger] t[i].0, o.state.version)      // C05
        &&& t.len() <= 2 * o.view().len() + 1                                         // C11
        &&& self.same_config(o)
    }

//@fn src/generator/stack_ops.rs Generator::cleanup_for_stop
//@ghost Ghost(r): Ghost<RefState>
//@props C01 C05 C11 C09
//@subst self.state.version >= Version::V2 => vf_version_ge(self.state.version, Version::V2)
//@rewrite R14 emit_opcode self.emit_opcode($1, Ghost(gr)); proof { let ghost gop: OpcodeKind = $1; lemma_run_push(r, gtr, gop, RefArg { idx: 0 }); lemma_codes_push(gtr, gop, RefArg { idx: 0 }); gtr = gtr.push((gop, RefArg { idx: 0 })); gr = sim_step(gop, RefArg { idx: 0 }, gr); }
//@contract
    requires
        old(self).rel(r),
        !old(self).unsafe_mutations,
    ensures
        exists|t: Trace| #[trigger] final(self).cleanup_post(old(self), r, t),
//@prelude
        let ghost mut gr: RefState = r;
        let ghost mut gtr: Trace = Seq::empty();
        proof { assert(codes(gtr) =~= Seq::<u8>::empty()); assert(self.output@ + codes(gtr) =~= self.output@);
                lemma_count_marks_shape(self.view(), r.stack); }
//@loop 1
            invariant
                self.rel(gr), !self.unsafe_mutations, gr == ref_run(r, gtr), ref_run_ok(r, gtr),
                self.output@ == old(self).output@ + codes(gtr),
                forall|i: int| 0 <= i < gtr.len() ==> Generator::tail_op(#[trigger] gtr[i].0, old(self).state.version),
                self.same_config(old(self)), gr.memo == r.memo, gr.memo_len == r.memo_len,
                gtr.len() + count_marks(gr.stack) == count_marks(r.stack),
                gr.stack.len() <= r.stack.len(),
            decreases count_marks(gr.stack),
//@before 1 self.emit_opcode(Tuple
            proof { lemma_top_mark_compat(self.view(), gr.stack); lemma_tuple_step(gr.stack); lemma_count_marks_bounds(gr.stack); }
            let ghost out0 = self.output@; let ghost tr0 = gtr;
//@after 1 self.emit_opcode(Tuple
            proof { assert(old(self).output@ + codes(tr0).push(ref_code(OpcodeKind::Tuple) as u8) =~= (old(self).output@ + codes(tr0)).push(ref_code(OpcodeKind::Tuple) as u8)); }
//@before 1 let has_tuple_n
        let ghost n1 = gtr.len(); let ghost len1 = gr.stack.len();
        proof { lemma_top_mark_compat(self.view(), gr.stack); lemma_count_marks_bounds(gr.stack); lemma_count_marks_bounds(r.stack); }
//@loop 2
            invariant
                self.rel(gr), !self.unsafe_mutations, gr == ref_run(r, gtr), ref_run_ok(r, gtr),
                self.output@ == old(self).output@ + codes(gtr),
                forall|i: int| 0 <= i < gtr.len() ==> Generator::tail_op(#[trigger] gtr[i].0, old(self).state.version),
                self.same_config(old(self)), gr.memo == r.memo, gr.memo_len == r.memo_len,
                count_marks(gr.stack) == 0,
                has_tuple_n == (ver_num(self.state.version) >= 2),
                gtr.len() + gr.stack.len() <= n1 + len1,
                n1 <= r.stack.len(), len1 <= r.stack.len(),
            ensures
                self.view().len() <= 1,
            decreases gr.stack.len(),
//@before 1 self.emit_opcode(Pop
                proof { lemma_nomark_step(gr.stack, 1, false); }
//@before 1 self.emit_opcode(Tuple3
                proof { lemma_nomark_step(gr.stack, 3, true); }
//@before 1 self.emit_opcode(Tuple2
                proof { lemma_nomark_step(gr.stack, 2, true); }
//@before 1 self.emit_opcode(None
            proof { lemma_nomark_step(gr.stack, 0, false); lemma_count_marks_push(gr.stack.subrange(0, gr.stack.len() as int), Kind::None); }
//@before 1 if matches!(*top.borrow(), StackObject::Mark)
            proof { lemma_nomark_step(gr.stack, 0, false); lemma_top_mark_props(gr.stack);
                    lemma_top_mark_compat(self.view(), gr.stack); lemma_top_mark_props(self.view()); }
//@epilogue
        proof { assert(self.cleanup_post(old(self), r, gtr)); }
//@endfn

    // ---------------------------------------------------------------------------------------------
    // U6 (abstract effect of the emitters): which opcode is handed to process_stack_ops, with which
    // memo index, and that exactly one opcode is appended.  Byte-level encodings are the Kani side.
    pub open spec fn int_like(op: OpcodeKind) -> bool {
        op == OpcodeKind::Int || op == OpcodeKind::Long || op == OpcodeKind::Long1 || op == OpcodeKind::Long4
        || op == OpcodeKind::BinInt || op == OpcodeKind::BinInt1 || op == OpcodeKind::BinInt2
    }
    pub open spec fn family(op: OpcodeKind, op2: OpcodeKind) -> bool {
        op2 == op || (Generator::int_like(op) && Generator::int_like(op2))
    }
    pub open spec fn flags_ok(&self, op: OpcodeKind) -> bool {
        &&& (op == OpcodeKind::Ext1 || op == OpcodeKind::Ext2 || op == OpcodeKind::Ext4) ==> self.allow_ext_opcodes
        &&& (op == OpcodeKind::NextBuffer || op == OpcodeKind::ReadOnlyBuffer) ==> self.allow_buffer_opcodes
        &&& op != OpcodeKind::Frame && op != OpcodeKind::Stop && op != OpcodeKind::Proto
    }
    /// what one emit_and_process call achieves: exactly one opcode `op2` (same family as the chosen
    /// one, available in the protocol, respecting the opt-in flags) whose reference preconditions
    /// hold is appended, and the simulation follows the reference machine
    pub open spec fn emit_post(&self, o: &Generator, r: RefState, op: OpcodeKind, op2: OpcodeKind, a: RefArg, chunk: Seq<u8>) -> bool {
        &&& Generator::family(op, op2)
        &&& ref_pre(op2, a, r)                                   // C01 C02 C03
        &&& self.rel(ref_step(op2, a, r))                        // C17
        &&& contig(ref_step(op2, a, r))
        &&& ref_proto(op2) <= ver_num(o.state.version)           // C05
        &&& o.flags_ok(op2)                                      // C10 C06
        &&& self.output@ == o.output@ + chunk && chunk.len() >= 1 && chunk[0] == ref_code(op2) as u8   // C11 C04
        &&& self.same_config(o)
    }
    pub open spec fn emit_pre(&self, op: OpcodeKind, r: RefState) -> bool {
        &&& self.rel(r) && contig(r)
        &&& !self.unsafe_mutations
        &&& self.guard_ok(op, r)
        &&& ref_proto(op) <= ver_num(self.state.version)
        &&& r.memo_len < 0x1_0000_0000
        &&& ver_num(self.state.version) >= 2 ==> self.state.proto_emitted
    }

//@fn src/generator/mutation.rs Generator::mutate_memo_index
//@ret r
//@assume
//@contract
//@endfn

//@fn src/generator/mutation.rs Generator::mutate_float
//@ret r
//@assume
//@contract
//@endfn

#[verifier::external_body]
pub fn create_snapshot(&self) -> (r: VfSnapshot) { unimplemented!() }

/// post_process_emission: in safe mode no registered built-in mutator rewrites emitted bytes
/// (TypeConfusionMutator::post_process returns false unless unsafe; all others use the default
/// method) -- proved by the Kani harnesses u8_typeconfusion_* / u8_not_applicable_*.
#[verifier::external_body]
pub fn post_process_emission(&mut self, snapshot: VfSnapshot, source: &mut GenerationSource)
    ensures !old(self).unsafe_mutations ==> *final(self) == *old(self),
{ unimplemented!() }

#[verifier::external_body]
pub fn get_random_module(&self, source: &mut GenerationSource) -> (r: Result<VfText, VfError>)
    ensures r is Ok, vf_line_parts(r->Ok_0.bytes()) >= 2, r->Ok_0.bytes().len() >= 2
{ unimplemented!() }

//@define EMIT_CONTRACT
//@contract
    requires
        old(self).emit_pre(opcode, r),
    ensures
        res is Ok,
        exists|op2: OpcodeKind, a: RefArg, chunk: Seq<u8>| #[trigger] final(self).emit_post(old(self), r, opcode, op2, a, chunk),
//@enddef

//@arms src/generator/emission.rs Generator::emit_and_process opcode
//@ret res
//@ghost Ghost(r): Ghost<RefState>
//@props C01 C02 C03 C05 C10 C11 C17
//@sigsubst Result<()> => Result<(), VfError>
//@use EMIT_CONTRACT
//@arm Int | Long | Long1 | Long4 | BinInt | BinInt1 | BinInt2
//@assume
//@arm Float
//@assume
//@arm BinFloat
//@assume
//@arm String | Unicode | ShortBinUnicode | BinUnicode | BinUnicode8
//@assume
//@arm BinString | ShortBinString | ShortBinBytes | BinBytes | BinBytes8 | ByteArray8
//@assume
//@arm Global
//@assume
//@arm Put
//@subst format!("{}\n", index) => vf_fmt_usize_nl(index)
//@rewrite R14 process_stack_ops self.process_stack_ops($ARGS, Ghost(r), Ghost(RefArg { idx: index as int }))
//@before 1 self.process_stack_ops(
                let ghost out1 = self.output@;
//@before 1 Ok(())
        proof {
            let ga = RefArg { idx: old(self).state.memo@.len() as int };
            let chunk = self.output@.subrange(old(self).output@.len() as int, self.output@.len() as int);
            assert(self.output@ =~= old(self).output@ + chunk);
            assert(self.emit_post(old(self), r, opcode, opcode, ga, chunk));
        }
//@arm BinPut
//@rewrite R14 process_stack_ops self.process_stack_ops($ARGS, Ghost(r), Ghost(RefArg { idx: index as int }))
//@before 1 self.process_stack_ops(
                let ghost out1 = self.output@;
//@before 1 Ok(())
        proof {
            let ga = RefArg { idx: old(self).state.memo@.len() as int };
            let chunk = self.output@.subrange(old(self).output@.len() as int, self.output@.len() as int);
            assert(self.output@ =~= old(self).output@ + chunk);
            assert(self.emit_post(old(self), r, opcode, opcode, ga, chunk));
        }
//@arm LongBinPut
//@substall index.to_le_bytes() => vf_u32_to_le_bytes(index)
//@rewrite R14 process_stack_ops self.process_stack_ops($ARGS, Ghost(r), Ghost(RefArg { idx: index as int }))
//@before 1 self.process_stack_ops(
                let ghost out1 = self.output@;
//@before 1 Ok(())
        proof {
            let ga = RefArg { idx: old(self).state.memo@.len() as int };
            let chunk = self.output@.subrange(old(self).output@.len() as int, self.output@.len() as int);
            assert(self.output@ =~= old(self).output@ + chunk);
            assert(self.emit_post(old(self), r, opcode, opcode, ga, chunk));
        }
//@arm Get
//@subst self.state.memo.keys().copied().collect() => vf_keys(&self.state.memo)
//@subst keys.sort_unstable() => vf_sort_unstable(&mut keys)
//@subst format!("{}\n", index) => vf_fmt_usize_nl(index)
//@rewrite R14 process_stack_ops self.process_stack_ops($ARGS, Ghost(r), Ghost(RefArg { idx: index as int }))
//@prelude
        let ghost mut gidx: int = 0;
//@after 1 vf_sort_unstable(&mut keys)
                proof { assert(keys@.len() > 0); }
//@after 1 let index = keys[
                    proof { assert(keys@.contains(index)); }
//@before 1 self.process_stack_ops(
                    proof { gidx = index as int; }
//@before 1 Ok(())
        proof {
            let chunk = self.output@.subrange(old(self).output@.len() as int, self.output@.len() as int);
            assert(self.output@ =~= old(self).output@ + chunk);
            assert(self.emit_post(old(self), r, opcode, opcode, RefArg { idx: gidx }, chunk));
        }
//@arm BinGet
//@subst self.state.memo.keys().filter(|&&k| k < 256).copied().collect() => vf_keys_below(&self.state.memo, 256)
//@subst valid_indices.sort_unstable() => vf_sort_unstable(&mut valid_indices)
//@subst self.mutate_memo_index(index, source).min(255) => vf_min_usize(self.mutate_memo_index(index, source), 255)
//@rewrite R14 process_stack_ops self.process_stack_ops($ARGS, Ghost(r), Ghost(RefArg { idx: index as int }))
//@prelude
        let ghost mut gidx: int = 0;
//@before 1 vf_sort_unstable(&mut valid_indices)
                proof { assert(r.memo.dom().contains(0)); assert(self.state.memo@.dom().contains(0usize)); assert(valid_indices@.contains(0usize)); }
//@after 1 vf_sort_unstable(&mut valid_indices)
                proof { assert(valid_indices@.contains(0usize)); assert(valid_indices@.len() > 0); }
//@after 1 let index = valid_indices[
                    proof { assert(valid_indices@.contains(index)); }
//@before 1 self.process_stack_ops(
                    proof { gidx = index as int; }
//@before 1 Ok(())
        proof {
            let chunk = self.output@.subrange(old(self).output@.len() as int, self.output@.len() as int);
            assert(self.output@ =~= old(self).output@ + chunk);
            assert(self.emit_post(old(self), r, opcode, opcode, RefArg { idx: gidx }, chunk));
        }
//@arm LongBinGet
//@subst self.state.memo.keys().copied().collect() => vf_keys(&self.state.memo)
//@subst keys.sort_unstable() => vf_sort_unstable(&mut keys)
//@subst (index as u32).to_le_bytes() => vf_u32_to_le_bytes(index as u32)
//@rewrite R14 process_stack_ops self.process_stack_ops($ARGS, Ghost(r), Ghost(RefArg { idx: index as int }))
//@prelude
        let ghost mut gidx: int = 0;
//@after 1 vf_sort_unstable(&mut keys)
                proof { assert(keys@.len() > 0); }
//@after 1 let index = keys[
                    proof { assert(keys@.contains(index)); }
//@before 1 self.process_stack_ops(
                    proof { gidx = index as int; }
//@before 1 Ok(())
        proof {
            let chunk = self.output@.subrange(old(self).output@.len() as int, self.output@.len() as int);
            assert(self.output@ =~= old(self).output@ + chunk);
            assert(self.emit_post(old(self), r, opcode, opcode, RefArg { idx: gidx }, chunk));
        }
//@arm Ext1
//@assume
//@arm Ext2
//@assume
//@arm Ext4
//@assume
//@arm PersID
//@assume
//@arm Inst
//@assume
//@arm Frame
//@subst unreachable!("Frame should not be emitted during generation") => vf_unreachable()
//@arm _
//@rewrite R14 emit_opcode self.emit_opcode($1, Ghost(r))
//@before 1 Ok(())
        proof {
            let a0 = RefArg { idx: 0 };
            assert(self.output@ =~= old(self).output@ + seq![ref_code(opcode) as u8]);
            assert(opcode != OpcodeKind::Proto);
            assert(old(self).flags_ok(opcode));
            assert(contig(ref_step(opcode, a0, r)));
            assert(self.rel(ref_step(opcode, a0, r)));
            assert(self.emit_post(old(self), r, opcode, opcode, a0, seq![ref_code(opcode) as u8]));
        }
//@endfn

}

} // verus!
fn main() {}
