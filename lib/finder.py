"""Replay finder (DESIGN 2.4): supplies a concrete failing input for an obligation the verifier has
already reported as failed, by running the REAL library (replay/vfgen, ordinary build of /repo) over
a fixed input family and checking the outputs with lib/refcheck.py.  Never the deciding step.

Also usable from the command line to confirm a suspected defect or a seeded change:
    python3 lib/finder.py C01 [--quick]          -> prints the first failing job and its violation
    python3 lib/finder.py --job 'P=5 hex=.. buffer=1'   -> run one job and print all findings
"""
import itertools
import os
import random
import subprocess
import sys

sys.path.insert(0, os.path.dirname(os.path.abspath(__file__)))
import refcheck  # noqa: E402

VERIF = os.path.dirname(os.path.dirname(os.path.abspath(__file__)))
REPO = os.environ.get('VERIF_REPO', '/repo')
# VERIF_SLOT: private build directories, so that a second tree (VERIF_REPO=<clone>) can be checked while /repo is in use
SLOT = os.environ.get('VERIF_SLOT', '')
SFX = ('-' + SLOT) if SLOT else ''
TARGET = os.path.join(VERIF, 'build', 'replay-target' + SFX)
BIN = os.path.join(TARGET, 'release', 'vfreplay')
MUTS = ['bitflip', 'boundary', 'offbyone', 'stringlen', 'character', 'memoindex', 'typeconfusion']


def build():
    """(Re)build vfgen against /repo's current working tree."""
    env = dict(os.environ, CARGO_NET_OFFLINE='true', CARGO_TARGET_DIR=TARGET)
    crate = os.path.join(VERIF, 'replay')
    if REPO != '/repo':
        # same driver source, dependency path pointing at the other tree
        import shutil
        crate = os.path.join(VERIF, 'build', 'replay-crate' + SFX)
        shutil.rmtree(crate, ignore_errors=True)
        os.makedirs(os.path.join(crate, 'src'))
        shutil.copy(os.path.join(VERIF, 'replay', 'src', 'main.rs'), os.path.join(crate, 'src', 'main.rs'))
        open(os.path.join(crate, 'Cargo.toml'), 'w').write(
            open(os.path.join(VERIF, 'replay', 'Cargo.toml')).read().replace('path = "/repo"', 'path = "%s"' % REPO))
        lk = os.path.join(VERIF, 'replay', 'Cargo.lock')
        if os.path.exists(lk):
            shutil.copy(lk, os.path.join(crate, 'Cargo.lock'))
    p = subprocess.run(['cargo', 'build', '--release', '--offline', '--quiet'], cwd=crate,
                       env=env, capture_output=True, text=True)
    if p.returncode != 0:
        raise RuntimeError('vfreplay build failed: ' + p.stderr[-2000:])
    return BIN


CLI_TARGET = os.path.join(VERIF, 'build', 'cli-target' + SFX)


def cli_flag_check(quick=True):
    """C10, bounded: the real command-line binary (src/main.rs, built from /repo's working tree) forwards
    --allow-ext / --allow-buffer to the generator and nothing else turns the opcodes on.  Single-file and
    batch mode, the four flag combinations, protocols 2..5.  Returns (n_runs, first_violation or None)."""
    import pickletools
    import shutil
    env = dict(os.environ, CARGO_NET_OFFLINE='true')
    p = subprocess.run(['cargo', 'build', '--release', '--offline', '--quiet', '--manifest-path', os.path.join(REPO, 'Cargo.toml'),
                        '--bin', 'pickle-fuzzer', '--target-dir', CLI_TARGET], env=env, capture_output=True, text=True)
    if p.returncode != 0:
        raise RuntimeError('CLI build failed: ' + p.stderr[-1500:])
    exe = os.path.join(CLI_TARGET, 'release', 'pickle-fuzzer')
    out = os.path.join(VERIF, 'build', 'cli-out' + SFX)
    shutil.rmtree(out, ignore_errors=True)
    os.makedirs(out)
    EXT = {'EXT1', 'EXT2', 'EXT4'}
    BUF = {'NEXT_BUFFER', 'READONLY_BUFFER'}
    n = 0
    seen = dict(runs=0, ext=0, buf=0)

    def look(path, ext, buf, what):
        data = open(path, 'rb').read()
        try:
            names = set(o.name for o, a, q in pickletools.genops(data))
        except Exception:  # noqa: BLE001 - other properties' business
            return None
        seen['runs'] += 1
        seen['ext'] += bool(ext and names & EXT)
        seen['buf'] += bool(buf and names & BUF)
        if not ext and names & EXT:
            return 'C10 %s: %s in the output although --allow-ext was not given' % (what, sorted(names & EXT))
        if not buf and names & BUF:
            return 'C10 %s: %s in the output although --allow-buffer was not given' % (what, sorted(names & BUF))
        return None

    try:
        for P in (2, 3, 4, 5):
            for ext in (False, True):
                for buf in (False, True):
                    fl = (['--allow-ext'] if ext else []) + (['--allow-buffer'] if buf else [])
                    for sd in range(12 if quick else 120):
                        f = os.path.join(out, 'one.pkl')
                        cmd = [exe, f, '--protocol', str(P), '--seed', str(sd), '--min-opcodes', '150', '--max-opcodes', '300'] + fl
                        if sd % 3 == 2:
                            cmd += ['--mutators', 'typeconfusion', 'bitflip', '--mutation-rate', '0.5', '--unsafe-mutations']
                        r = subprocess.run(cmd, capture_output=True, text=True)
                        n += 1
                        if r.returncode != 0:
                            continue
                        bad = look(f, ext, buf, ' '.join(cmd[2:]))
                        if bad:
                            return n, (' '.join(cmd[1:]), bad)
                    d = os.path.join(out, 'batch')
                    shutil.rmtree(d, ignore_errors=True)
                    cmd = [exe, '--dir', d, '--samples', '40' if quick else '400', '--protocol', str(P), '--min-opcodes', '150', '--max-opcodes', '300'] + fl
                    if ext != buf:
                        cmd += ['--seed', str(P + 2)]
                    r = subprocess.run(cmd, capture_output=True, text=True)
                    n += 1
                    if r.returncode == 0 and os.path.isdir(d):
                        for fn in sorted(os.listdir(d)):
                            bad = look(os.path.join(d, fn), ext, buf, ' '.join(cmd[1:]) + ' file ' + fn)
                            if bad:
                                return n, (' '.join(cmd[1:]), bad)
    finally:
        shutil.rmtree(out, ignore_errors=True)
    if not (seen['runs'] and seen['ext'] and seen['buf']):
        # vacuity guard: the enabled configurations must actually show the opcodes
        raise RuntimeError('CLI flag check is vacuous: %r' % seen)
    return n, None


def rate_one_check(quick=True):
    """C15, bounded, through the public API (builder with_mutation_rate + registered mutator): at rate 1.0 with the boundary
    mutator registered (alone, or FIRST of several) every BININT / FLOAT / BINFLOAT argument in the output is one of the
    mutator's boundary constants (no value escapes mutation, no later mutator gets ahead), in both entropy modes.  Returns (n_runs, first_violation or None)."""
    import math
    import pickletools
    build()
    jobs = []
    for P in range(6):
        for sd in range(12 if quick else 120):
            jobs.append('P=%d seed=%d mut=boundary rate=1.0 min=60 max=200' % (P, sd))
            # "... is mutated by the FIRST such mutator": boundary registered first decides every int and float, the
            # mutators registered after it never get to see one
            jobs.append('P=%d seed=%d mut=boundary,bitflip,offbyone rate=1.0 min=60 max=200' % (P, sd))
            # ... and "the first such mutator" is the first one that is APPLICABLE to the value: string / memo-index mutators
            # registered ahead of boundary have nothing to say about ints and floats
            jobs.append('P=%d seed=%d mut=stringlen,character,memoindex,boundary rate=1.0 min=60 max=200' % (P, sd))
        for h in ('', '00', '0503', 'a1b2c3d4e5f60718', '17' * 40):
            jobs.append('P=%d hex=%s mut=boundary rate=1.0 min=20 max=60' % (P, h))
    ints = {0, -1, 1, 2 ** 31 - 1, -2 ** 31}
    n = 0
    seen = 0
    for job, line in run_jobs(jobs):
        n += 1
        if not line.startswith('ok '):
            continue
        try:
            ops = [(o.name, a) for o, a, p in pickletools.genops(bytes.fromhex(line[3:].split(' | ')[0]))]
        except Exception:  # noqa: BLE001 - other properties' business
            continue
        for name, a in ops:
            if name == 'BININT':
                seen += 1
                if a not in ints:
                    return n, (job, 'C15 rate 1.0 with the boundary mutator registered, but BININT %d is not a boundary constant: a value escaped mutation' % a)
            elif name in ('FLOAT', 'BINFLOAT'):
                seen += 1
                ok = math.isnan(a) or math.isinf(a) or a in (0.0, -1.0, 1.0, 1.7976931348623157e308, -1.7976931348623157e308)
                if not ok:
                    return n, (job, 'C15 rate 1.0 with the boundary mutator registered, but %s %r is not a boundary constant: a value escaped mutation' % (name, a))
    if seen == 0:
        raise RuntimeError('rate-one check is vacuous: no BININT/FLOAT/BINFLOAT seen')
    return n, None


def cli_forwarding_check(prop, quick=True):
    """C05 / C11, bounded: the command-line front end hands --protocol and --min-opcodes/--max-opcodes to the generator
    unchanged: the output of `--protocol P --min-opcodes a --max-opcodes b` passes the same byte-level checks as a
    library call with that configuration.  Returns (n_runs, first_violation of `prop` or None)."""
    import shutil
    env = dict(os.environ, CARGO_NET_OFFLINE='true')
    p = subprocess.run(['cargo', 'build', '--release', '--offline', '--quiet', '--manifest-path', os.path.join(REPO, 'Cargo.toml'),
                        '--bin', 'pickle-fuzzer', '--target-dir', CLI_TARGET], env=env, capture_output=True, text=True)
    if p.returncode != 0:
        raise RuntimeError('CLI build failed: ' + p.stderr[-1500:])
    exe = os.path.join(CLI_TARGET, 'release', 'pickle-fuzzer')
    out = os.path.join(VERIF, 'build', 'cli-fwd' + SFX)
    shutil.rmtree(out, ignore_errors=True)
    os.makedirs(out)
    n = 0
    try:
        for P in range(6):
            for (a, b) in ((60, 300), (5, 9), (30, 30), (40, 10), (0, 0)):
                for sd in range(4 if quick else 40):
                    for extra in ([], ['--mutators', 'offbyone', 'stringlen', 'character', 'boundary', '--mutation-rate', '0.5']):
                        f = os.path.join(out, 'one.pkl')
                        cmd = [exe, f, '--protocol', str(P), '--seed', str(sd), '--min-opcodes', str(a), '--max-opcodes', str(b)] + extra
                        r = subprocess.run(cmd, capture_output=True, text=True)
                        n += 1
                        if r.returncode != 0:
                            if prop == 'C09':
                                return n, (' '.join(cmd[1:]), 'C09 the command-line run failed: %s' % r.stderr[-200:])
                            continue
                        errs = refcheck.check_all(open(f, 'rb').read(), P, unsafe=False, ext=False, buffer=False, min_ops=a, max_ops=b)
                        mine = [e for e in errs if e.startswith(prop)]
                        if mine:
                            return n, (' '.join(cmd[2:]), mine[0] + ' (command-line front end)')
            # batch mode, without and with --seed (a seed must not override the requested protocol: seed % 6 != P here)
            # ... and with well-formed, inverted, equal and empty opcode ranges (the pair must arrive in the order given)
            for seedargs, (a, b) in (([], (20, 60)), (['--seed', str(P + 1)], (20, 60)), (['--seed', str(6 * 7 + ((P + 3) % 6))], (20, 60)),
                                     ([], (40, 10)), (['--seed', str(P + 7)], (40, 10)), ([], (30, 30)), ([], (0, 0))):
                d = os.path.join(out, 'batch')
                shutil.rmtree(d, ignore_errors=True)
                cmd = [exe, '--dir', d, '--samples', '24' if quick else '240', '--protocol', str(P), '--min-opcodes', str(a), '--max-opcodes', str(b)] + seedargs
                r = subprocess.run(cmd, capture_output=True, text=True)
                n += 1
                if r.returncode == 0 and os.path.isdir(d):
                    for fn in sorted(os.listdir(d)):
                        errs = refcheck.check_all(open(os.path.join(d, fn), 'rb').read(), P, unsafe=False, ext=False, buffer=False, min_ops=a, max_ops=b)
                        mine = [e for e in errs if e.startswith(prop)]
                        if mine:
                            return n, (' '.join(cmd[1:]) + ' file ' + fn, mine[0] + ' (command-line front end, batch mode)')
    finally:
        shutil.rmtree(out, ignore_errors=True)
    return n, None


def cli_determinism_check(quick=True):
    """C07, bounded: the real command-line binary (single-file mode and rayon batch mode under different worker
    counts) returns the same bytes for the same --seed/--protocol/configuration in separate processes.
    Returns (n_runs, first_violation or None)."""
    import shutil
    env = dict(os.environ, CARGO_NET_OFFLINE='true')
    p = subprocess.run(['cargo', 'build', '--release', '--offline', '--quiet', '--manifest-path', os.path.join(REPO, 'Cargo.toml'),
                        '--bin', 'pickle-fuzzer', '--target-dir', CLI_TARGET], env=env, capture_output=True, text=True)
    if p.returncode != 0:
        raise RuntimeError('CLI build failed: ' + p.stderr[-1500:])
    exe = os.path.join(CLI_TARGET, 'release', 'pickle-fuzzer')
    out = os.path.join(VERIF, 'build', 'cli-det' + SFX)
    shutil.rmtree(out, ignore_errors=True)
    os.makedirs(out)
    n = 0
    try:
        for P in range(6):
            for sd in ((0, 7) if quick else (0, 1, 7, 42, 1000003)):
                for extra in ([], ['--mutators', 'offbyone', 'memoindex', 'stringlen', 'character', '--mutation-rate', '0.5']):
                    base = ['--protocol', str(P), '--seed', str(sd), '--min-opcodes', '200', '--max-opcodes', '500'] + extra
                    ref = None
                    for k in range(2):
                        f = os.path.join(out, 'one%d.pkl' % k)
                        r = subprocess.run([exe, f] + base, capture_output=True, text=True)
                        n += 1
                        if r.returncode != 0:
                            return n, (' '.join(base), 'C09 the command-line run failed: %s' % r.stderr[-200:])
                        data = open(f, 'rb').read()
                        if ref is None:
                            ref = data
                        elif data != ref:
                            return n, (' '.join(base), 'C07 two runs of the CLI with the same seed and configuration wrote different bytes (%d vs %d)' % (len(ref), len(data)))
                    # batch mode: the i-th sample must not depend on the number of workers or on the run
                    # (it may legitimately differ from the single-file output and from sample to sample)
                    first = None
                    for threads in ('1', '8', '8'):
                        d = os.path.join(out, 'batch' + threads)
                        shutil.rmtree(d, ignore_errors=True)
                        r = subprocess.run([exe, '--dir', d, '--samples', '12'] + base, capture_output=True, text=True,
                                           env=dict(os.environ, RAYON_NUM_THREADS=threads))
                        n += 1
                        if r.returncode != 0 or not os.path.isdir(d):
                            continue
                        cur = {fn: open(os.path.join(d, fn), 'rb').read() for fn in sorted(os.listdir(d))}
                        if first is None:
                            first = cur
                        elif cur != first:
                            fn = sorted(k for k in set(cur) | set(first) if cur.get(k) != first.get(k))[0]
                            return n, ('--dir <d> --samples 12 ' + ' '.join(base) + ' (RAYON_NUM_THREADS=1 vs %s, file %s)' % (threads, fn),
                                       'C07 batch mode wrote different bytes for the same sample, seed and configuration in two runs with different worker counts')
    finally:
        shutil.rmtree(out, ignore_errors=True)
    return n, None


def _die_with_parent():
    # the replay tool must not outlive the process that started it (a hanging generation call would spin forever)
    try:
        import ctypes
        import signal
        ctypes.CDLL('libc.so.6').prctl(1, signal.SIGKILL)   # PR_SET_PDEATHSIG
    except Exception:  # noqa: BLE001
        pass


def run_jobs(jobs, timeout=600):
    p = subprocess.run([BIN], input='\n'.join(jobs) + '\n', capture_output=True, text=True, timeout=timeout, preexec_fn=_die_with_parent)
    lines = p.stdout.split('\n')
    res = []
    for i, j in enumerate(jobs):
        ln = lines[i] if i < len(lines) else 'crash'
        res.append((j, ln))
    if p.returncode != 0 and len([l for l in lines if l]) < len(jobs):
        k = len([l for l in lines if l])
        res[k] = (jobs[k], 'abort rc=%d %s' % (p.returncode, p.stderr[-200:].replace('\n', ' ')))
        res = res[:k + 1]
    return res


def parse_job(job):
    d = {}
    for kv in job.split():
        k, v = kv.split('=', 1)
        d[k] = v
    return d


def findings(job, line):
    """All violations (strings starting with the property id) for one job result."""
    d = parse_job(job)
    P = int(d.get('P', 2))
    if not line.startswith('ok '):
        return ['C09 generation did not return Ok: %s' % line]
    state = None
    if ' | ' in line:
        line, state = line.split(' | ', 1)
    outs = [bytes.fromhex(h) for h in line[3:].split(',')]
    errs = []
    uns = d.get('unsafe') == '1'
    for o in outs:
        if not o:
            errs.append('C09 empty output')
    calls = d.get('calls')
    if calls:
        # C08: every generation call with the same entropy must give the same bytes as a fresh generator
        specs = [c for c in calls.split(';') if c != 'reset']
        first = {}
        for s, o in zip(specs, outs):
            # `fresh:H` / `freshseed` run the same call on a new generator: results must agree with the reused one
            key = 'hex:' + s[6:] if s.startswith('fresh:') else ('seed' if s == 'freshseed' else s)
            if key in first and first[key] != o:
                errs.append('C08 call %s returned different bytes on a reused generator than on a fresh one (%d vs %d bytes)' % (key, len(first[key]), len(o)))
            first.setdefault(key, o)
    o = outs[-1] if calls else outs[0]
    mn = int(d['min']) if 'min' in d else 60
    mx = int(d['max']) if 'max' in d else 300
    errs += refcheck.check_all(o, P, unsafe=uns, ext=d.get('ext') == '1', buffer=d.get('buffer') == '1',
                               min_ops=mn, max_ops=mx)
    # (a complaint about what STOP finds does not disturb the comparison: the reference run below ends BEFORE the STOP)
    if state is not None and not uns and not any(e.startswith(('C01', 'C04', 'C09')) and not e.startswith(('C01 dis:', 'C01 STOP with stack')) for e in errs):
        # C17 (end state only; the per-step statement is the proof's business): the simulated machine the
        # generator is left with vs. the reference machine run on the returned bytes up to (not including) STOP
        ops, derr = refcheck.decode(o)
        if not derr and ops and ops[-1][0] == 'STOP':
            me, states = refcheck.machine(ops[:-1], stop_at_first=False)
            if not any(e.startswith('C01') for e in me):
                rst, rmemo = (states[-1][1], states[-1][2]) if states else ([], [])
                depth, marks, keys = state.split(';')
                smarks = [int(x) for x in marks.split('.') if x]
                skeys = [int(x) for x in keys.split('.') if x]
                rmarks = [i for i, k in enumerate(rst) if k == refcheck.MARK]
                if int(depth) != len(rst):
                    errs.append('C17 simulated depth %s, reference machine depth %d before STOP' % (depth, len(rst)))
                if smarks != rmarks:
                    errs.append('C17 simulated MARK positions %r, reference %r' % (smarks, rmarks))
                if skeys != sorted(rmemo):
                    only_s = sorted(set(skeys) - set(rmemo))[:5]
                    only_r = sorted(set(rmemo) - set(skeys))[:5]
                    errs.append('C17 memo index sets differ: only simulated %r, only reference %r (sizes %d / %d)' % (only_s, only_r, len(skeys), len(rmemo)))
    return errs


def grid(prop, quick, seed=0):
    if prop == 'C17':
        return [j + ' state=1' for j in grid('C01', quick, seed) if 'calls=' not in j]
    if prop in ('C07', 'C12'):
        return ['(C07: job list run in two processes; C12: seeds 0..N per protocol, opcode histogram)'] * (1000 if quick else 8000)
    rnd = random.Random(seed)
    jobs = []
    inputs = ['hex=']
    inputs += ['hex=%02x' % b for b in range(0, 256, 5 if quick else 2)]
    if not quick:
        inputs += ['hex=%02x%02x' % (a, b) for a in range(0, 256, 17) for b in range(0, 256, 23)]
    for _ in range(64 if quick else 512):
        n = rnd.choice([3, 8, 32, 128, 512, 2048])
        inputs.append('hex=' + bytes(rnd.getrandbits(8) for _ in range(n)).hex())
    inputs += ['seed=%d' % s for s in range(64 if quick else 512)]
    ranges = ['', 'min=0 max=0', 'min=5 max=3', 'min=1 max=2', 'min=600 max=900']
    if prop in ('C01', 'C02', 'C11', 'C09'):
        ranges += ['min=3000 max=3001']
    if prop == 'C01' and not quick:
        ranges += ['min=30000 max=30001']
    if prop in ('C06', 'C04'):
        ranges += ['min=9000 max=9001']
    mutsets = ['', 'mut=offbyone,memoindex rate=1.0', 'mut=' + ','.join(MUTS[:5]) + ' rate=1.0',
               'mut=' + ','.join(MUTS) + ' rate=0.6', 'mut=typeconfusion,offbyone rate=1.0',
               'mut=stringlen,character rate=0.5', 'mut=boundary rate=1.0']
    flags = ['', 'ext=1 buffer=1']
    if prop == 'C10':
        # each opt-in flag alone, and applied before / after the other builder calls
        flags += ['ext=1', 'buffer=1', 'ext=1 cfgfirst=1', 'buffer=1 cfgfirst=1']
        # many EXT emissions with only EXT enabled (an argument byte read as an opcode is a buffer opcode 2 times in 256)
        for P in range(2, 6):
            for sd in range(250 if quick else 2500):
                jobs.append('P=%d seed=%d min=150 max=400 ext=1' % (P, sd))
            for sd in range(40 if quick else 400):
                jobs.append('P=%d seed=%d min=150 max=400 buffer=1' % (P, sd))
    if prop in ('C04', 'C06', 'C09', 'C10'):
        mutsets += ['mut=' + ','.join(MUTS) + ' rate=1.0 unsafe=1', 'mut=typeconfusion,memoindex rate=0.7 unsafe=1']
    if prop == 'C08':
        out = []
        hist = ['00', '01', 'ff7f', 'aa2d8e', '0101010101']     # earlier calls (even/odd first byte = unframed/framed for P >= 4)
        for P in range(6):
            for i in inputs[:120]:
                if i.startswith('hex='):
                    h = i[4:]
                    out.append('P=%d calls=hex:%s;hex:%s;fresh:%s' % (P, h, h, h))
                    for k, e in enumerate(hist):
                        mid = ';reset' if k % 2 else ''
                        out.append('P=%d calls=hex:%s%s;hex:%s;fresh:%s' % (P, e, mid, h, h))
                    out.append('P=%d calls=hex:01;hex:00;reset;hex:%s;fresh:%s' % (P, h, h))
                else:
                    out.append('P=%d %s calls=seed;seed;freshseed' % (P, i))
                    out.append('P=%d %s calls=hex:01;seed;freshseed' % (P, i))
            # a long pickle first (hundreds of memo entries, large allocations), then the same call again:
            # anything that survives reset() through capacity or allocation state shows here
            for sd in range(2 if quick else 10):
                out.append('P=%d seed=%d min=4000 max=4001 calls=seed;seed;freshseed' % (P, sd))
            # registered mutators are configuration too: nothing about them (their order, anything they remember) may
            # differ between the second call of a reused generator and a fresh one.  Odd and even opcode counts, so
            # that per-opcode bookkeeping over the mutator list cannot cancel out.
            for sd in range(12 if quick else 120):
                for cfgm in ('mut=bitflip,boundary rate=1.0 min=11 max=11', 'mut=boundary,offbyone,character rate=1.0 min=20 max=20',
                             'mut=offbyone,memoindex,stringlen rate=0.5 min=40 max=90',
                             'mut=typeconfusion,bitflip,memoindex rate=0.6 unsafe=1 min=30 max=61'):
                    out.append('P=%d seed=%d %s calls=seed;seed;freshseed' % (P, sd, cfgm))
            for h in ('', '00', '0b25', 'ff01fe02fd03', '1b' * 30):
                out.append('P=%d mut=bitflip,boundary rate=1.0 min=11 max=11 calls=hex:%s;hex:%s;fresh:%s' % (P, h, h, h))
                out.append('P=%d mut=stringlen,character,offbyone rate=1.0 min=9 max=9 calls=hex:01;reset;hex:%s;fresh:%s' % (P, h, h))
        return out
    if prop == 'C11':
        mutsets += ['mut=stringlen rate=1.0', 'mut=memoindex,typeconfusion rate=0.5 unsafe=1', 'unsafe=1']
        ranges += ['min=2 max=2', 'min=3 max=3']
    combos = list(itertools.product(range(6), ranges, mutsets, flags))
    if prop == 'C11':
        # inverted pairs (max < min) with a large gap: the target must be exactly min; the long POP tail of
        # protocols 0/1 makes an overshoot visible in the opcode count
        for P in range(6):
            for sd in range(150 if quick else 1500):
                jobs.append('P=%d seed=%d min=100 max=0' % (P, sd))
            for h in inputs[:60]:
                if h.startswith('hex='):
                    jobs.append('P=%d %s min=100 max=0' % (P, h))
                    jobs.append('P=%d %s min=40 max=1' % (P, h))
    # the plain default configuration gets many medium-sized pickles: rare opcode interleavings
    # (nested MARKs, particular kinds on top) need a few thousand samples to show up
    for P in range(6):
        for sd in range(120 if quick else 1500):
            jobs.append('P=%d seed=%d min=150 max=400' % (P, sd))
    # the opt-in vocabulary (EXT*, NEXT_BUFFER, READONLY_BUFFER) takes part in the stack and memo discipline like any other
    # opcode; their arms are rarely taken, so they get their own medium-sized runs
    if prop in ('C01', 'C02', 'C03', 'C17', 'C04', 'C09'):
        for sd in range(400 if quick else 3000):
            jobs.append('P=5 seed=%d buffer=1 min=60 max=300' % sd)
        for P in range(2, 6):
            for sd in range(60 if quick else 600):
                jobs.append('P=%d seed=%d ext=1 min=60 max=300' % (P, sd))
    # the remaining public configuration knob, with_buffer_size(n): whatever it is used for, every property holds for every
    # n (a size smaller than the pickle, 0, sizes no allocator can satisfy)
    for P in range(6):
        for sd in range(4 if quick else 30):
            for n in (32, 0, 4096):
                jobs.append('P=%d seed=%d bufsize=%d min=60 max=300' % (P, sd, n))
        jobs.append('P=%d hex=0102030405060708 bufsize=16 min=60 max=300' % P)
        if prop == 'C09':
            jobs.append('P=%d seed=1 bufsize=18446744073709551615 min=2 max=6' % P)
            jobs.append('P=%d hex=01 bufsize=9223372036854775808 min=2 max=6' % P)
    # generator reuse is a dimension of every byte-level property: the LAST output of a short call history is checked
    for P in range(6):
        for sd in range(6 if quick else 40):
            jobs.append('P=%d seed=%d calls=seed;seed' % (P, sd))
            jobs.append('P=%d seed=%d min=5 max=40 mut=%s rate=0.3 calls=hex:0102;seed;hex:ff' % (P, sd, ','.join(MUTS[:5])))
    # text-argument hazards: a safe string mutator at rate 1 on many medium-sized pickles (a control character or
    # quote reaching a text opcode derails the decode only for particular replacement bytes)
    for P in range(6):
        for sd in range(100 if quick else 1000):
            jobs.append('P=%d seed=%d min=150 max=400 mut=character rate=1.0' % (P, sd))
        for sd in range(30 if quick else 300):
            jobs.append('P=%d seed=%d min=150 max=400 mut=stringlen,character,boundary rate=1.0' % (P, sd))
    if prop == 'C09':
        # fuzzer inputs that run dry right after the first choices (every later draw is the fixed fallback): loops that
        # re-draw "until different" or index with a fallback value show up here
        for P in range(6):
            for m in ('character', 'stringlen', 'bitflip', 'boundary', 'offbyone,memoindex'):
                for x in range(0, 256, 1 if not quick else 3):
                    jobs.append('P=%d hex=00%02x01 mut=%s rate=1.0' % (P, x, m))
                    jobs.append('P=%d hex=0000%02x01 mut=%s rate=1.0' % (P, x, m))
    if prop in ('C01', 'C03'):
        # rare four-step histories of the protocol 4/5 vocabulary (STACK_GLOBAL, NEWOBJ_EX, ADDITEMS, FROZENSET ..)
        for P in (4, 5):
            for sd in range(300 if quick else 3000):
                jobs.append('P=%d seed=%d min=300 max=600' % (P, sd))
    if prop == 'C01':
        # very long pickles: more than 256 memo entries (text PUT/GET indices above one byte, LONG_BINPUT)
        for P in range(6):
            for sd in range(2 if quick else 8):
                jobs.append('P=%d seed=%d min=8000 max=8001' % (P, sd))
    # every combination gets a few inputs; the cheap default configuration gets all of them
    for (P, r, m, f) in combos:
        if 'min=9000' in r and not (P >= 4 and m == '' and f == ''):
            continue
        if ('min=3000' in r or 'min=30000' in r) and f != '':
            continue
        per = inputs if (r == '' and m == '' and f == '') else rnd.sample(inputs, 6 if quick else 24)
        if prop == 'C11' and r in ('min=0 max=0', 'min=1 max=2', 'min=5 max=3', 'min=2 max=2', 'min=3 max=3') and ('stringlen' in m or 'unsafe=1' in m):
            per = ['seed=%d' % k for k in range(600 if (P == 1 and 'stringlen' in m) else 60)]
        if 'min=30000' in r or 'min=3000' in r or 'min=9000' in r:
            per = ['seed=0', 'seed=1', 'seed=2', 'seed=3', 'hex=', 'hex=ff01']
        for i in per:
            jobs.append(' '.join(x for x in ('P=%d' % P, i, r, m, f) if x))
    return jobs


def find_c07(quick, seed):
    """Determinism: the same jobs in two separately started processes (fresh hash seeds, fresh address
    space) and on two generator instances must give identical bytes."""
    jobs = []
    for P in range(6):
        for sd in range(60 if quick else 600):
            jobs.append('P=%d seed=%d' % (P, sd))
            jobs.append('P=%d seed=%d min=400 max=700 mut=offbyone,memoindex,stringlen rate=0.5' % (P, sd))
        for h in ('', '00', 'ff01fe02', '0102030405060708090a0b0c0d0e0f10111213'):
            jobs.append('P=%d hex=%s min=300 max=500' % (P, h))
        # long pickles: more than 256 memo entries (hash-order effects only show up beyond small maps)
        for sd in range(3 if quick else 12):
            jobs.append('P=%d seed=%d min=4500 max=4500' % (P, sd))
            jobs.append('P=%d seed=%d min=4500 max=4500 mut=offbyone,memoindex rate=0.5' % (P, sd))
    # second process: the same jobs in the opposite order, so that anything a process remembers from the
    # generators it ran before (a process-wide cache, a global counter) shows up as a difference too
    a = run_jobs(jobs)
    b = dict(run_jobs(list(reversed(jobs))))
    for j, x in a:
        y = b.get(j)
        if x != y:
            return j, x, 'C07 two processes (job list run forwards / backwards) returned different bytes for the same configuration and entropy (%d vs %d hex chars)' % (len(x), len(y or ''))
    return None


def find_c12(quick, seed):
    """Reachability (bounded): over seeds 0..N with default settings every opcode of the protocol's
    table occurs in some output, and for P >= 4 framed and unframed pickles both occur.  The rarest opcodes
    (NEWOBJ_EX, BUILD) occur in roughly one default pickle in 1600, and WHICH seeds hit them moves with any
    change of the entropy mapping, so "missing after 6000 seeds" is not yet a finding: the sweep is extended
    to 40000 seeds for that protocol before anything is reported (miss probability for a 1-in-1600 opcode < 1e-10)."""
    import json as _json
    import pickletools
    ref = _json.load(open(os.path.join(VERIF, 'build', 'gen', 'ref_tables.json')))
    steps = (6000, 40000) if quick else (30000, 60000)

    import multiprocessing
    for P in range(6):
        for flags, extra in (('', set()), ('ext=1 buffer=1', {'EXT1', 'EXT2', 'EXT4', 'NEXT_BUFFER', 'READONLY_BUFFER'})):
            want = {r['py'] for r in ref if r['proto'] <= P} - {'EXT1', 'EXT2', 'EXT4', 'NEXT_BUFFER', 'READONLY_BUFFER', 'FRAME'}
            want |= {x for x in extra if [r for r in ref if r['py'] == x][0]['proto'] <= P}
            if P < 2:
                want -= {'PROTO'}
            seen, framed, unframed, done = set(), 0, 0, 0
            for n in steps:
                chunks = [(P, flags, a, min(a + 2000, n)) for a in range(done, n, 2000)]
                with multiprocessing.Pool(min(12, max(1, len(chunks)))) as pool:
                    for s_, f_, u_ in pool.map(_c12_sweep, chunks):
                        seen |= s_
                        framed += f_
                        unframed += u_
                done = n
                missing = sorted(want - seen)
                if not missing and not (P >= 4 and (framed == 0 or unframed == 0)):
                    break
            if missing:
                return 'P=%d seeds 0..%d %s' % (P, done - 1, flags), 'histogram', 'C12 opcodes never produced for protocol %d in %d seeds: %s' % (P, done, missing)
            if P >= 4 and (framed == 0 or unframed == 0):
                return 'P=%d seeds 0..%d' % (P, done - 1), 'histogram', 'C12 framed=%d unframed=%d' % (framed, unframed)
    return None


def _c12_sweep(args):
    import pickletools
    P, flags, lo, hi = args
    seen, framed, unframed = set(), 0, 0
    # the process first generates one pickle of every OTHER protocol (lowest first; results ignored): reachability is
    # claimed for a generator wherever it runs, also in a process that has produced other protocols before (anything
    # remembered process-wide across protocols - say a vocabulary cached by the first caller - would make opcodes
    # unreachable here).  The same order in every chunk: the union over chunks must not paper over it.
    others = [q for q in range(6) if q != P]
    warm = ['P=%d seed=%d min=60 max=300' % (q, 1000003 + q) for q in others]
    for j, line in run_jobs(warm + ['P=%d seed=%d %s' % (P, sd, flags) for sd in range(lo, hi)]):
        if j in warm or not line.startswith('ok '):
            continue
        try:
            names = [o.name for o, a, p in pickletools.genops(bytes.fromhex(line[3:]))]
        except Exception:  # noqa: BLE001
            continue
        seen.update(names)
        if 'FRAME' in names:
            framed += 1
        else:
            unframed += 1
    return seen, framed, unframed


def find(prop, quick=True, seed=0, limit=None):
    """Returns (job, output_line, violation) of the first input violating `prop`, or None."""
    build()
    if prop == 'C07':
        return find_c07(quick, seed)
    if prop == 'C12':
        return find_c12(quick, seed)
    # every job states its opcode range: the checks must not depend on what the library's defaults happen to be
    jobs = [j if 'min=' in j else j + ' min=60 max=300' for j in grid(prop, quick, seed)]
    if limit and len(jobs) > limit:
        # the few hand-placed corner jobs (very long pickles, inverted ranges, long-then-again) are always kept
        special = [j for j in jobs if any(t in j for t in ('min=4000 ', 'min=8000 ', 'min=100 max=0', 'calls=seed;seed', 'bufsize='))][:150]
        rest = [j for j in jobs if j not in set(special)]
        random.Random(seed).shuffle(rest)
        jobs = special + rest[:max(0, limit - len(special))]
    CH = 400
    chunks = [(prop, jobs[k:k + CH]) for k in range(0, len(jobs), CH)]
    nproc = max(1, min(int(os.environ.get('VERIF_FINDER_PROCS', '12')), len(chunks)))
    if nproc == 1:
        for c in chunks:
            r = _find_chunk(c)
            if r:
                return r
        return None
    import multiprocessing
    # chunks are examined in order (imap), so the reported input does not depend on scheduling
    with multiprocessing.Pool(nproc) as pool:
        for r in pool.imap(_find_chunk, chunks):
            if r:
                pool.terminate()
                return r
    return None


def _find_chunk(arg):
    """Run one chunk of jobs on the real library and check the outputs; first violation of `prop` or None."""
    prop, chunk = arg
    try:
        results = run_jobs(WARM + chunk, timeout=300)[len(WARM):]
    except subprocess.TimeoutExpired:
        # a generation call that does not return (C09: "terminates"): find the job, one process per job
        results = []
        for job in chunk:
            try:
                results += run_jobs([job], timeout=20)
            except subprocess.TimeoutExpired:
                results.append((job, 'timeout: the generation call did not return within 20 s'))
                break
    for job, line in results:
        for e in findings(job, line):
            if e.startswith(prop):
                # does the job fail on its own (fresh process), or only after what the process generated before it?
                try:
                    alone = run_jobs([job], timeout=60)
                    if not any(x.startswith(prop) for x in findings(*alone[0])):
                        e += ' [only in a process that has generated other pickles before: feed the replay tool the lines %r and then this job]' % (WARM,)
                except Exception:  # noqa: BLE001
                    pass
                return job, line[:20000], e
    return None


# Every chunk of jobs runs in a process that has ALREADY produced two pickles with other configurations (all opt-in flags and
# unsafe mutators on, protocol 5; then a plain protocol-0 one).  Each property is claimed for a generator wherever it runs,
# also next to other generators in the same process: anything remembered process-wide (a cached vocabulary, cached guard
# verdicts) shows up as a byte-level violation of the job that follows.  On a tree without such state this changes nothing.
WARM = ['P=5 seed=900001 min=40 max=120 ext=1 buffer=1 unsafe=1 mut=typeconfusion,memoindex rate=0.5',
        'P=0 seed=900002 min=40 max=120']


if __name__ == '__main__':
    if sys.argv[1] == '--job':
        build()
        for job, line in run_jobs([sys.argv[2]]):
            print(line[:300])
            for e in findings(job, line):
                print(' ', e)
    else:
        r = find(sys.argv[1], quick='--quick' in sys.argv, seed=int(os.environ.get('VERIF_SEED', '0') or 0))
        if r:
            print('FOUND job: %s\n  %s' % (r[0], r[2]))
        else:
            print('no failing input found')
