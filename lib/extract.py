"""Template expander: builds a Verus unit from a contract template + the real function bodies.

Template directives (all are `//@...` comment lines inside an ordinary .rs file):

  //@include <path relative to /verif>            paste a file (spec code, generated tables)
  //@item <src> <struct|enum> <Name> [drop-derive] paste a type definition verbatim from /repo/src
      //@field-type <field> <Type>                 (R9) replace the declared type of one field
      //@derives <Trait> ..                        the item must carry #[derive(.. Trait ..)] (contracts assume the derived impl)
  //@fn <src> <Impl>::<name>                        paste a real function; sub-directives until //@endfn
      //@vis <text>            visibility to print (default: pub)
      //@ret <name>            name for the return value  ->  `-> (name: T)`
      //@ghost <params>        extra ghost parameters appended to the parameter list
      //@attr <text>           attribute line printed before the fn
      //@contract              following plain lines = requires/ensures/decreases clauses
      //@loop <n>              following plain lines = clauses for the n-th loop (1-based, source order)
      //@before <k> <text>     following plain lines inserted before the k-th line starting with <text>
      //@after <k> <text>      ... after that line
      //@rewrite <Rule> [...]  apply a named mechanical rewrite rule (lib/rules.py)
      //@prelude               following plain lines (ghost code) are placed at the start of the body
      //@subst <old> => <new>  (R12) replace the unique occurrence of <old>; blanks match any whitespace,
                               `...` matches any bracket-balanced text
      //@epilogue              following plain lines (ghost code) are placed at the end of the body (unit-returning fns)
      //@sigsubst <old> => <new>  (R7) replace a type in the signature (color_eyre::Result -> local Result<T, VfError>)
      //@assume                keep the contract, replace the body by an external_body stub
  //@arms <src> <Impl>::<name> <scrutinee>          split `match <scrutinee> {..}` into one fn per arm
      (same sub-directives; //@contract is shared by all arms and by the generated dispatcher)
      //@arm <pattern>         following //@loop //@before //@after //@rewrite //@assume //@extra apply to that arm
      //@extra                 (inside //@arm) extra contract clauses for that arm only
  //@endfn

Anything else in the template is copied through.  The result records, for every pasted function,
where its text came from (file, line range) so that a failing Verus span can be mapped back.
"""
import os
import re

import rsx
import rules
from rsx import LostAnchor

REPO = os.environ.get('VERIF_REPO', '/repo')
VERIF = os.path.dirname(os.path.dirname(os.path.abspath(__file__)))


class Spec:
    def __init__(self):
        self.vis = 'pub'
        self.ret = None
        self.ghost = None
        self.attrs = []
        self.contract = []
        self.loops = {}
        self.inserts = []   # (where, k, text, lines)
        self.rewrites = []
        self.assume = False
        self.extra = []
        self.prelude = []
        self.epilogue = []
        self.props = []
        self.sigsubst = []
        self.vacuous_ok = False

    def clone_for_arm(self, arm):
        s = Spec()
        s.vis, s.ret, s.ghost = self.vis, self.ret, self.ghost
        s.attrs = list(self.attrs)
        s.contract = list(self.contract)
        s.rewrites = list(self.rewrites)
        s.prelude = list(self.prelude)
        s.epilogue = list(self.epilogue)
        s.props = list(self.props)
        s.sigsubst = list(self.sigsubst)
        s.inserts = list(self.inserts)
        if arm:
            s.prelude += arm.prelude
            s.epilogue += arm.epilogue
            if arm.props:
                s.props = arm.props
            s.loops = arm.loops
            s.inserts = list(self.inserts) + list(arm.inserts)
            s.rewrites += arm.rewrites
            s.assume = arm.assume
            s.extra = arm.extra
            s.vacuous_ok = arm.vacuous_ok
        return s


def norm_pat(p):
    return ' '.join(rsx.strip_comments(p).replace('\n', ' ').split())


def pat_ident(p):
    return re.sub(r'[^A-Za-z0-9]+', '_', norm_pat(p)).strip('_')


class Expander:
    def __init__(self, template_path, vacuity=False, force_assume=()):
        self.vacuity = vacuity
        # functions to keep as assumed contracts for this run because their body could not be extracted
        # or is rejected by the verifier (partial degradation: the rest of the unit is still verified)
        self.force_assume = set(force_assume)
        self.lost = {}
        self.tpath = template_path
        self.sources = {}
        self.functions = []     # metadata of every pasted function
        self.rules_used = set()
        self.out = []

    def src(self, rel):
        if rel not in self.sources:
            self.sources[rel] = rsx.Source(os.path.join(REPO, rel))
        return self.sources[rel]

    # ------------------------------------------------------------------------------------
    def expand(self):
        lines = self.expand_macros(self.splice_templates(open(self.tpath).read().split('\n')))
        i = 0
        n = len(lines)
        while i < n:
            ln = lines[i]
            st = ln.strip()
            if st.startswith('//@include '):
                p = st.split(None, 1)[1].strip()
                self.out.append('// ---- include %s' % p)
                self.out.append(open(os.path.join(VERIF, p)).read())
                i += 1
            elif st.startswith('//@item '):
                parts = st.split()
                rel, kind, name = parts[1], parts[2], parts[3]
                fields = {}
                i += 1
                while i < n and lines[i].strip().startswith(('//@field-type ', '//@derives ')):
                    if lines[i].strip().startswith('//@derives '):
                        # the contracts assume a compiler-derived impl (e.g. Default): require the derive to be there
                        attrs = rsx.item_attrs(self.src(rel), kind, name)
                        ders = set(x.strip() for d in re.findall(r'#\[derive\(([^)]*)\)\]', attrs) for x in d.split(','))
                        for want in lines[i].strip().split()[1:]:
                            if want not in ders:
                                raise LostAnchor('%s: %s %s no longer derives %s (contracts assume the derived impl)' % (rel, kind, name, want))
                        i += 1
                        continue
                    _, f, t = lines[i].strip().split(None, 2)
                    fields[f] = t
                    i += 1
                self.out.append(self.item(rel, kind, name, fields))
            elif st.startswith('//@fn ') or st.startswith('//@arms '):
                j = i + 1
                block = []
                while j < n and lines[j].strip() != '//@endfn':
                    block.append(lines[j])
                    j += 1
                if j >= n:
                    raise LostAnchor('template: missing //@endfn after line %d' % (i + 1))
                if st.startswith('//@fn '):
                    self.do_fn(st, block)
                else:
                    self.do_arms(st, block)
                i = j + 1
            else:
                self.out.append(ln)
                i += 1
        return '\n'.join(self.out) + '\n'

    @staticmethod
    def splice_templates(lines):
        """//@include-template <path>: the lines of another template are spliced in (directives in it
        are processed as if written here)."""
        out = []
        for ln in lines:
            st = ln.strip()
            if st.startswith('//@include-template '):
                pth = os.path.join(VERIF, st.split(None, 1)[1].strip())
                out.extend(Expander.splice_templates(open(pth).read().split('\n')))
            else:
                out.append(ln)
        return out

    @staticmethod
    def expand_macros(lines):
        """//@define NAME .. //@enddef  defines a block of template lines; //@use NAME pastes it."""
        macros = {}
        out = []
        i = 0
        while i < len(lines):
            st = lines[i].strip()
            if st.startswith('//@define '):
                name = st.split()[1]
                j = i + 1
                blk = []
                while lines[j].strip() != '//@enddef':
                    blk.append(lines[j])
                    j += 1
                macros[name] = blk
                i = j + 1
            elif st.startswith('//@use '):
                name = st.split()[1]
                if name not in macros:
                    raise LostAnchor('template: unknown macro %s' % name)
                out.extend(macros[name])
                i += 1
            else:
                out.append(lines[i])
                i += 1
        return out

    # ------------------------------------------------------------------------------------
    def item(self, rel, kind, name, fields):
        s = self.src(rel)
        text = rsx.strip_comments(s.item_text(kind, name))
        text = re.sub(r'(?m)^\s*#\[allow\([^\]]*\)\]\s*\n', '', text)
        text = re.sub(r'(?m)^\s*#\[default\]\s*\n', '', text)
        for f, t in fields.items():
            text, k = re.subn(r'(\b%s\s*:\s*)[^,\n]+(,?)' % re.escape(f), lambda m: m.group(1) + t + m.group(2), text, count=1)
            if k != 1:
                raise LostAnchor('%s: field %s of %s not found' % (rel, f, name))
            self.rules_used.add('R9')
        text = re.sub(r'\bpub\(super\)|\bpub\(crate\)', 'pub', text)
        # visibility is irrelevant inside the single-file unit: make the item and its named fields public
        if not re.match(r'\s*pub\b', text):
            text = 'pub ' + text.lstrip()
        if kind == 'struct':
            text = re.sub(r'(?m)^(\s+)(?!pub\b)(\w+\s*:)', r'\1pub \2', text)
        return text

    # ------------------------------------------------------------------------------------
    def parse_block(self, block):
        """Parse sub-directives into a Spec plus per-arm Specs."""
        top = Spec()
        arms = {}
        cur = top
        sink = None
        for ln in block:
            st = ln.strip()
            if st.startswith('//@'):
                d = st[3:].split(None, 1)
                key = d[0]
                arg = d[1] if len(d) > 1 else ''
                sink = None
                if key == 'vis':
                    cur.vis = arg
                elif key == 'ret':
                    cur.ret = arg.strip()
                elif key == 'ghost':
                    cur.ghost = arg.strip()
                elif key == 'attr':
                    cur.attrs.append(arg)
                elif key == 'contract':
                    sink = cur.contract
                elif key == 'extra':
                    sink = cur.extra
                elif key == 'prelude':
                    sink = cur.prelude
                elif key == 'epilogue':
                    sink = cur.epilogue
                elif key == 'props':
                    cur.props = arg.split()
                elif key == 'sigsubst':
                    old, new = arg.split(' => ', 1)
                    cur.sigsubst.append((old.strip(), new.strip()))
                elif key == 'loop':
                    sink = cur.loops.setdefault(int(arg), [])
                elif key in ('before', 'after'):
                    k, text = arg.split(None, 1)
                    sink = []
                    cur.inserts.append((key, int(k), text.strip(), sink))
                elif key == 'rewrite':
                    cur.rewrites.append(arg.split())
                elif key in ('subst?', 'substall?'):
                    old, new = arg.split(' => ', 1)
                    cur.rewrites.append(['R12?' if key == 'subst?' else 'R12ALL?', old.strip(), new.strip()])
                elif key in ('subst', 'substall'):
                    old, new = arg.split(' => ', 1) if ' => ' in arg else (arg[:-3], '') if arg.endswith(' =>') else (arg, '')
                    cur.rewrites.append(['R12' if key == 'subst' else 'R12ALL', old.strip(), new.strip()])
                elif key == 'assume':
                    cur.assume = True
                elif key == 'unreachable':
                    # the contract of this arm is meant to be contradictory (the arm is proved dead)
                    cur.vacuous_ok = True
                elif key == 'arm':
                    cur = arms.setdefault(norm_pat(arg), Spec())
                else:
                    raise LostAnchor('template: unknown directive %s' % st)
            else:
                if sink is not None:
                    sink.append(ln)
                elif st:
                    raise LostAnchor('template: stray line in //@fn block: %s' % st)
        return top, arms

    # ------------------------------------------------------------------------------------
    def weave(self, body_text, spec, label):
        """Apply rewrite rules, loop clauses and ghost insertions to a body (text inside braces)."""
        text = rsx.strip_comments(body_text)
        for rw in spec.rewrites:
            name = rw[0]
            if name.endswith('?'):
                # optional rule: applied where its pattern occurs, skipped otherwise
                try:
                    text = rules.apply(name[:-1], text, rw[1:], label)
                    self.rules_used.add('R12' if name[:-1] == 'R12ALL' else name[:-1])
                except LostAnchor:
                    pass
            else:
                text = rules.apply(name, text, rw[1:], label)
                self.rules_used.add('R12' if name == 'R12ALL' else name)
        # ghost insertions first (line based), then loop clauses (bracket based)
        for where, k, anchor, glines in spec.inserts:
            ls = text.split('\n')
            hits = [idx for idx, l in enumerate(ls) if l.strip().startswith(anchor)]
            if len(hits) < k:
                raise LostAnchor('%s: anchor #%d "%s" not found (%d hits)' % (label, k, anchor, len(hits)))
            idx = hits[k - 1]
            pos = idx if where == 'before' else idx + 1
            ls[pos:pos] = glines
            text = '\n'.join(ls)
        if spec.prelude:
            text = '\n' + '\n'.join(spec.prelude) + '\n' + text
        if spec.epilogue:
            text = text.rstrip() + '\n' + '\n'.join(spec.epilogue) + '\n'
        if spec.loops:
            b = rsx.Body(text)
            loops = b.loops()
            edits = []
            for nth, clauses in spec.loops.items():
                if nth > len(loops):
                    raise LostAnchor('%s: loop #%d not found (%d loops)' % (label, nth, len(loops)))
                _, open_brace, _ = loops[nth - 1]
                edits.append((open_brace, '\n' + '\n'.join(clauses) + '\n'))
            for pos, ins in sorted(edits, reverse=True):
                text = text[:pos] + ins + text[pos:]
        return text

    def signature(self, sig, spec, newname=None, extra_requires=None):
        """sig: real text from `fn` to before `{`.  Returns the Verus header."""
        sig = ' '.join(rsx.strip_comments(sig).split())
        for old, new in spec.sigsubst:
            if old not in sig:
                raise LostAnchor('signature text `%s` not found in: %s' % (old, sig))
            sig = sig.replace(old, new)
            self.rules_used.add('R7')
        name, generics, params, ret = split_sig(sig)
        params = params.strip().rstrip(',')
        if spec.ghost:
            params = (params + ', ' if params else '') + spec.ghost
        out = ''
        for a in spec.attrs:
            out += a + '\n'
        out += '%s fn %s%s(%s)' % (spec.vis, newname or name, generics or '', params)
        if ret:
            ret = ret.strip()
            out += ' -> (%s: %s)' % (spec.ret, ret) if spec.ret else ' -> %s' % ret
        out += '\n'
        clauses = list(spec.contract)
        if extra_requires:
            clauses = self.add_requires(clauses, extra_requires)
        if spec.extra:
            clauses = self.merge_clauses(clauses, spec.extra)
        if getattr(self, '_twin', False):
            # vacuity canary: with this extra postcondition the function MUST fail to verify
            clauses = [c for c in clauses if c.strip()]
            if not any(c.strip().startswith('ensures') for c in clauses):
                clauses.append('    ensures')
            elif not clauses[-1].rstrip().endswith(',') and not clauses[-1].split('//')[0].rstrip().endswith(','):
                clauses[-1] = clauses[-1] + ','
            clauses.append('        false, // @VACUITY')
        out += '\n'.join(clauses)
        return out, name

    @staticmethod
    def add_requires(clauses, cond):
        for idx, l in enumerate(clauses):
            if l.strip().startswith('requires'):
                return clauses[:idx + 1] + ['        %s,' % cond] + clauses[idx + 1:]
        return ['    requires', '        %s,' % cond] + clauses

    @staticmethod
    def merge_clauses(clauses, extra):
        """extra lines are grouped by leading keyword (requires / ensures); append into the
        existing group or create it."""
        groups = {}
        key = None
        for l in extra:
            s = l.strip()
            mm = re.match(r'(requires|ensures)\b(.*)', s)
            if mm:
                key = mm.group(1)
                rest = mm.group(2).strip()
                groups.setdefault(key, [])
                if rest:
                    groups[key].append('        ' + rest)
            elif key:
                groups[key].append(l)
        out = list(clauses)
        for key, ls in groups.items():
            pos = None
            for idx, l in enumerate(out):
                if l.strip().startswith(key):
                    pos = idx
                    break
            if pos is None:
                if key == 'requires':
                    out = ['    requires'] + ls + out
                else:
                    out = out + ['    ensures'] + ls
            else:
                out[pos + 1:pos + 1] = ls
        return out

    def locate(self, directive):
        parts = directive.split()
        rel, qual = parts[1], parts[2]
        impl, name = qual.split('::')
        s = self.src(rel)
        impl_re = r'impl(<[^>]*>)? (\w+(<[^>]*>)? for )?%s(<[^>]*>)?' % re.escape(impl)
        fn = s.find_fn(name, impl_re)
        return s, fn, rel, qual, parts[3:]

    def record(self, rel, qual, s, fn, obligation, assumed, arm=None, props=None):
        line0 = s.text.count('\n', 0, fn['sig_start']) + 1
        line1 = s.text.count('\n', 0, fn['body_close']) + 1
        self.functions.append(dict(source=rel, function=qual, arm=arm, lines=[line0, line1],
                                   verus_fn=obligation, assumed=assumed, props=list(props or [])))

    def begin(self, ident):
        self.out.append('//@@BEGIN %s' % ident)
        # own solver instance per function: lets verus --num-threads verify functions in parallel
        self.out.append('#[verifier::spinoff_prover]')

    def end(self, ident):
        self.out.append('//@@END %s' % ident)

    # ------------------------------------------------------------------------------------
    def do_fn(self, directive, block):
        s, fn, rel, qual, rest = self.locate(directive)
        spec, arms_ = self.parse_block(block)
        if arms_:
            raise LostAnchor('template: //@arm inside //@fn %s' % qual)
        newname = None
        if len(rest) >= 2 and rest[0] == 'as':
            newname = rest[1]
        hdr, name = self.signature(fn['sig'], spec, newname)
        label = qual
        impl = qual.split('::')[0]
        vname = '%s::%s' % (impl, newname or name)
        self.begin(vname)
        body = None
        forced = False
        if not spec.assume:
            if vname in self.force_assume:
                forced = True
                self.lost.setdefault(vname, 'rejected by the verifier front end')
            else:
                try:
                    body = self.weave(s.body(fn), spec, label)
                except LostAnchor as e:
                    forced = True
                    self.lost[vname] = str(e)
        if spec.assume or forced:
            self.out.append('#[verifier::external_body]')
            self.out.append(hdr)
            self.out.append('{ unimplemented!() }')
            self.rules_used.add('R8')
        else:
            self.out.append(hdr)
            self.out.append('{' + body + '}')
        self.end(vname)
        self.record(rel, qual, s, fn, vname, spec.assume or forced, props=spec.props)
        if forced:
            self.functions[-1]['lost'] = self.lost[vname]
        if self.vacuity and not spec.assume and not forced:
            self._twin = True
            hdr2, _ = self.signature(fn['sig'], spec, (newname or name) + '__vac')
            self._twin = False
            self.begin(vname + '__vac')
            self.out.append(hdr2)
            self.out.append('{' + body + '}')
            self.end(vname + '__vac')
            self.record(rel, qual, s, fn, vname + '__vac', False, arm='<vacuity twin>', props=['VACUITY'])

    def do_arms(self, directive, block):
        s, fn, rel, qual, rest = self.locate(directive)
        scrut = rest[0]
        alias = rest[2] if len(rest) >= 3 and rest[1] == 'as' else None
        top, armspecs = self.parse_block(block)
        body = rsx.Body(s.body(fn))
        ms, mo, mc, arms = body.top_match(re.escape(scrut))
        # Statements before the match (prefix) and after it (suffix) are copied into every arm
        # function: for a given opcode the original body executes prefix; <that arm>; suffix.
        prefix = rsx.strip_comments(body.text[:ms]).strip()
        suffix = rsx.strip_comments(body.text[mc + 1:]).strip()
        if suffix.startswith(';'):
            suffix = suffix[1:].strip()
        used = set()
        dispatch = []
        fname = alias or qual.split('::')[1]
        for pat, arm, is_block in arms:
            np = norm_pat(pat)
            if re.search(r'\bif\b', np):
                raise LostAnchor('%s: arm with guard: %s' % (qual, np))
            aspec = top.clone_for_arm(armspecs.get(np))
            if np in armspecs:
                used.add(np)
            ident = '%s__%s' % (fname, pat_ident(np))
            if np != '_':
                cond = '(' + ' || '.join('%s == OpcodeKind::%s' % (scrut, v.strip()) for v in np.split('|')) + ')'
            else:
                others = [v.strip() for p2, _, _ in arms for v in norm_pat(p2).split('|') if norm_pat(p2) != '_']
                cond = '!(' + ' || '.join('%s == OpcodeKind::%s' % (scrut, v) for v in others) + ')'
            hdr, _ = self.signature(fn['sig'], aspec, ident, cond)
            label = '%s[%s]' % (qual, np)
            vname = '%s::%s' % (qual.split('::')[0], ident)
            self.begin(vname)
            text = None
            forced = False
            if not aspec.assume:
                if vname in self.force_assume:
                    forced = True
                    self.lost.setdefault(vname, 'rejected by the verifier front end')
                else:
                    try:
                        inner = arm[1:-1] if is_block else ' ' + arm + ' '
                        if suffix:
                            inner = inner.rstrip()
                            if not is_block and not inner.endswith(';'):
                                inner += ';'
                            inner = '{' + inner + '}\n' + suffix + '\n'
                        text = self.weave((prefix + '\n' if prefix else '') + inner, aspec, label)
                    except LostAnchor as e:
                        forced = True
                        self.lost[vname] = str(e)
            if aspec.assume or forced:
                self.out.append('#[verifier::external_body]')
                self.out.append(hdr)
                self.out.append('{ unimplemented!() }')
                self.rules_used.add('R8')
            else:
                self.out.append(hdr)
                self.out.append('{' + text + '}')
            self.end(vname)
            self.record(rel, qual, s, fn, vname, aspec.assume or forced, arm=np, props=aspec.props)
            if forced:
                self.functions[-1]['lost'] = self.lost[vname]
            if self.vacuity and not aspec.assume and not aspec.vacuous_ok and not forced:
                self._twin = True
                hdr2, _ = self.signature(fn['sig'], aspec, ident + '__vac', cond)
                self._twin = False
                self.begin(vname + '__vac')
                self.out.append(hdr2)
                self.out.append('{' + text + '}')
                self.end(vname + '__vac')
                self.record(rel, qual, s, fn, vname + '__vac', False, arm='<vacuity twin>', props=['VACUITY'])
            dispatch.append((np, ident))
        missing = set(armspecs) - used
        if missing:
            # the match was re-shaped (arms merged, split or renamed): not fatal.  The source arms that replaced them were
            # handled above with the shared contract only (and lose their verdict if that is not enough); record the
            # template arms that no longer exist so that the run is reported as degraded, never as a full proof.
            for mname in sorted(missing):
                lost_name = '%s::%s__%s' % (qual.split('::')[0], fname, pat_ident(mname))
                self.lost[lost_name] = '%s: template arm `%s` not found in the source (match re-shaped)' % (qual, mname)
                self.record(rel, qual, s, fn, lost_name, True, arm=mname, props=top.props)
                self.functions[-1]['lost'] = self.lost[lost_name]
                self.functions[-1]['unit_lines'] = None
        # dispatcher: verified against the shared contract
        hdr, name = self.signature(fn['sig'], top, alias)
        name = alias or name
        params = [p.strip() for p in split_top(split_sig(' '.join(rsx.strip_comments(fn['sig']).split()))[2]) if p.strip()]
        argnames = []
        for p in params:
            if p in ('&self', '&mut self', 'self', 'mut self'):
                continue
            argnames.append(p.split(':')[0].strip().replace('mut ', ''))
        if top.ghost:
            for p in split_top(top.ghost):
                mm = re.match(r'\s*Ghost\((\w+)\)', p)
                argnames.append('Ghost(%s)' % mm.group(1))
        vname = '%s::%s' % (qual.split('::')[0], name)
        self.begin(vname)
        self.out.append(hdr)
        self.out.append('{\n    match %s {' % scrut)
        for np, ident in dispatch:
            pats = ' | '.join('OpcodeKind::%s' % v.strip() for v in np.split('|')) if np != '_' else '_'
            self.out.append('        %s => self.%s(%s),' % (pats, ident, ', '.join(argnames)))
        self.out.append('    }\n}')
        self.end(vname)
        self.record(rel, qual, s, fn, vname, False, arm='<dispatcher>', props=top.props)
        self.rules_used.add('R10')


def split_sig(sig):
    """`fn name<G>(params) -> ret`  ->  (name, generics, params, ret) using bracket matching."""
    m = re.match(r'fn\s+(\w+)\s*(<[^>(]*>)?\s*\(', sig)
    if not m:
        raise LostAnchor('cannot parse signature: %s' % sig)
    o = m.end() - 1
    c = rsx.match_close(sig, o)
    rest = sig[c + 1:].strip()
    ret = None
    if rest.startswith('->'):
        ret = rest[2:].strip()
    elif rest:
        raise LostAnchor('cannot parse signature tail: %s' % rest)
    return m.group(1), m.group(2), sig[o + 1:c], ret


def split_top(s):
    out, depth, cur = [], 0, ''
    for ch in s:
        if ch in '(<[':
            depth += 1
        elif ch in ')>]':
            depth -= 1
        if ch == ',' and depth == 0:
            out.append(cur)
            cur = ''
        else:
            cur += ch
    if cur.strip():
        out.append(cur)
    return out


def build_unit(template, out_path, vacuity=False, force_assume=()):
    ex = Expander(template, vacuity=vacuity, force_assume=force_assume)
    text = ex.expand()
    # line ranges of every pasted function in the generated unit
    ranges = {}
    for no, ln in enumerate(text.split('\n'), 1):
        if ln.startswith('//@@BEGIN '):
            ranges[ln.split()[1]] = [no, None]
        elif ln.startswith('//@@END '):
            ranges[ln.split()[1]][1] = no
    for f in ex.functions:
        f['unit_lines'] = ranges.get(f['verus_fn'])
    ex.text = text
    os.makedirs(os.path.dirname(out_path), exist_ok=True)
    open(out_path, 'w').write(text)
    return ex
