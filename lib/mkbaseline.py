#!/usr/bin/env python3
"""Record, for every function extracted into a Verus unit, the set of call names its body uses on the PINNED tree
(contracts/baseline_calls.json, committed).  The driver uses it to tell a failed obligation in a function whose
body now calls something it did not call before - and for which no Verus specification is known - from a failed
obligation in code made of the same ingredients: the former may be verifier incompleteness (Verus accepts some std
calls, e.g. generic From::from impls, without any postcondition), so it is undecided, not a violation.
Run on the unchanged tree only:  python3 lib/mkbaseline.py"""
import json, os, sys
HERE = os.path.dirname(os.path.abspath(__file__))
sys.path.insert(0, HERE)
import extract, purity, props as P  # noqa: E402
VERIF = os.path.dirname(HERE)


def calls_by_function(template, tmp):
    ex = extract.build_unit(os.path.join(VERIF, template), tmp)
    lines = ex.text.split('\n')
    out = {}
    for f in ex.functions:
        ul = f.get('unit_lines')
        if not ul or f['assumed']:
            continue
        body = '\n'.join(lines[ul[0] - 1:ul[1]])
        out[f['verus_fn']] = sorted(set(n for n, _ in purity.call_names(body)))
    return out


if __name__ == '__main__':
    res = {}
    for u, d in P.UNITS.items():
        res[u] = calls_by_function(d['template'], '/tmp/vt-baseline-%s.rs' % u)
    json.dump(res, open(os.path.join(VERIF, 'contracts', 'baseline_calls.json'), 'w'), indent=0, sort_keys=True)
    print({u: len(v) for u, v in res.items()})
