#!/usr/bin/env python3
"""Apply a seeded change to /repo, run the given checks, restore /repo.  Prints one line per check.
usage: seedtest.py <seeded-dir> <Cxx> [<Cxx> ...]"""
import json, os, subprocess, sys, time
d = sys.argv[1]
props = sys.argv[2:]
patch = os.path.join(d, 'patch.diff')
assert subprocess.run(['git', '-C', '/repo', 'status', '--porcelain', '--untracked-files=no'], capture_output=True, text=True).stdout.strip() == '', '/repo not clean'
subprocess.run(['git', '-C', '/repo', 'apply', patch], check=True)
res = {}
try:
    for p in props:
        t = time.time()
        # evidence of runs on a deliberately broken tree must not replace the committed evidence of the real tree
        r = subprocess.run(['./check', p], cwd='/verif', capture_output=True, text=True,
                           env=dict(os.environ, VERIF_EVIDENCE_DIR='/verif/build/seed-evidence'))
        lines = [l for l in r.stdout.split('\n') if l.startswith(('VIOLATION', 'UNDECIDED', 'OK', 'KNOWN', 'DEGRADED'))]
        res[p] = dict(rc=r.returncode, lines=lines[:4], wall=round(time.time() - t, 1))
        print(p, 'rc=%d' % r.returncode, '%.0fs' % (time.time() - t), ' | '.join(lines[:3])[:300])
finally:
    subprocess.run(['git', '-C', '/repo', 'checkout', '--', '.'], check=True)
json.dump(res, open(os.path.join(d, 'last_run.json'), 'w'), indent=1)
