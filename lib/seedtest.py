#!/usr/bin/env python3
"""Apply a seeded change to a tree, run the given checks, restore the tree.  Prints one line per check.
usage: seedtest.py <seeded-dir> <Cxx> [<Cxx> ...]
The tree is /repo, or the clone named by SEED_REPO (then the checks run with VERIF_REPO=<clone> and private
build directories VERIF_SLOT=<SEED_SLOT or 'b'>, so /repo stays free for other work)."""
import json, os, subprocess, sys, time
d = sys.argv[1]
props = sys.argv[2:]
patch = os.path.abspath(os.path.join(d, 'patch.diff'))
tree = os.environ.get('SEED_REPO', '/repo')
env = dict(os.environ, VERIF_EVIDENCE_DIR='/verif/build/seed-evidence')
if tree != '/repo':
    env.update(VERIF_REPO=tree, VERIF_SLOT=os.environ.get('SEED_SLOT', 'b'))
    env['VERIF_EVIDENCE_DIR'] = '/verif/build/seed-evidence-' + env['VERIF_SLOT']
assert subprocess.run(['git', '-C', tree, 'status', '--porcelain', '--untracked-files=no'], capture_output=True, text=True).stdout.strip() == '', tree + ' not clean'
subprocess.run(['git', '-C', tree, 'apply', patch], check=True)
res = {}
try:
    for p in props:
        t = time.time()
        # evidence of runs on a deliberately broken tree must not replace the committed evidence of the real tree
        r = subprocess.run(['./check', p], cwd='/verif', capture_output=True, text=True, env=env)
        lines = [l for l in r.stdout.split('\n') if l.startswith(('VIOLATION', 'UNDECIDED', 'OK', 'KNOWN', 'DEGRADED'))]
        res[p] = dict(rc=r.returncode, lines=lines[:4], wall=round(time.time() - t, 1))
        print(p, 'rc=%d' % r.returncode, '%.0fs' % (time.time() - t), ' | '.join(lines[:3])[:300])
finally:
    subprocess.run(['git', '-C', tree, 'checkout', '--', '.'], check=True)
json.dump(res, open(os.path.join(d, 'last_run.json'), 'w'), indent=1)
