"""Minimal Rust source slicer used by the extraction step.

It does *not* parse Rust; it tokenises just enough (comments, string/char literals, lifetimes,
raw strings) to match brackets reliably, then locates `impl <Type> { fn <name> ... { body } }`
items, loop heads and `match` arms by bracket structure.  Everything it returns is a verbatim
substring of the input file.
"""
import re


class LostAnchor(Exception):
    pass


def mask(src):
    """Return a string of the same length where comment and literal *contents* are replaced by
    spaces (newlines kept), so bracket matching and regex searches see only code."""
    out = list(src)
    i, n = 0, len(src)

    def blank(a, b):
        for k in range(a, b):
            if out[k] != '\n':
                out[k] = ' '

    while i < n:
        c = src[i]
        if src.startswith('//', i):
            j = src.find('\n', i)
            j = n if j < 0 else j
            blank(i, j)
            i = j
        elif src.startswith('/*', i):
            depth, j = 1, i + 2
            while j < n and depth:
                if src.startswith('/*', j):
                    depth += 1; j += 2
                elif src.startswith('*/', j):
                    depth -= 1; j += 2
                else:
                    j += 1
            blank(i, j)
            i = j
        elif c == '"' or (c == 'b' and src.startswith('b"', i)):
            j = i + (2 if c == 'b' else 1)
            while j < n and src[j] != '"':
                j += 2 if src[j] == '\\' else 1
            blank(i + (2 if c == 'b' else 1), j)
            i = j + 1
        elif c == 'r' and re.match(r'r#*"', src[i:i + 12]) and (i == 0 or not (src[i - 1].isalnum() or src[i - 1] == '_')):
            m = re.match(r'r(#*)"', src[i:])
            hashes = m.group(1)
            end = src.find('"' + hashes, i + len(m.group(0)))
            end = n if end < 0 else end
            blank(i + len(m.group(0)), end)
            i = end + 1 + len(hashes)
        elif c == "'":
            # char literal or lifetime
            m = re.match(r"'(\\.[^']*|[^\\'])'", src[i:i + 12])
            if m:
                blank(i + 1, i + len(m.group(0)) - 1)
                i += len(m.group(0))
            else:
                i += 1
        else:
            i += 1
    return ''.join(out)


PAIRS = {'{': '}', '(': ')', '[': ']'}


def match_close(m, i):
    """m: masked text, i: index of an opening bracket. Returns index of the matching close."""
    stack = []
    n = len(m)
    k = i
    while k < n:
        ch = m[k]
        if ch in PAIRS:
            stack.append(PAIRS[ch])
        elif ch in ')]}':
            if not stack or stack[-1] != ch:
                raise LostAnchor('unbalanced bracket at %d' % k)
            stack.pop()
            if not stack:
                return k
        k += 1
    raise LostAnchor('no closing bracket for %d' % i)


class Source:
    def __init__(self, path):
        self.path = path
        self.text = open(path, encoding='utf-8').read()
        self.m = mask(self.text)

    # ---- items -------------------------------------------------------------------------
    def impl_blocks(self, header_re):
        """Yield (start_of_body, end_of_body) for every `impl ... {` whose header matches."""
        for mm in re.finditer(r'(?m)^[ \t]*impl\b[^{;]*\{', self.m):
            hdr = ' '.join(self.m[mm.start():mm.end() - 1].split())
            if re.fullmatch(header_re, hdr):
                o = mm.end() - 1
                yield o + 1, match_close(self.m, o)

    def find_fn(self, name, impl_re=None):
        """Locate `fn name`; returns dict(sig_start, sig, body_open, body_close).  sig is the text
        from `fn` up to (not including) the body's `{`."""
        spans = list(self.impl_blocks(impl_re)) if impl_re else [(0, len(self.m))]
        if impl_re and not spans:
            raise LostAnchor('%s: no impl matching /%s/' % (self.path, impl_re))
        hits = []
        for a, b in spans:
            for mm in re.finditer(r'\bfn\s+%s\b' % re.escape(name), self.m[a:b]):
                s = a + mm.start()
                # only functions directly inside the span (depth 0 relative to it)
                if self._depth(a, s) != 0:
                    continue
                # find the body '{' : first '{' at paren-depth 0 after the signature
                k = s
                depth = 0
                while k < b:
                    ch = self.m[k]
                    if ch in '([':
                        depth += 1
                    elif ch in ')]':
                        depth -= 1
                    elif ch == '{' and depth == 0:
                        break
                    elif ch == ';' and depth == 0:
                        k = -1
                        break
                    k += 1
                if k < 0 or k >= b:
                    continue
                hits.append(dict(sig_start=s, sig=self.text[s:k].strip(), body_open=k,
                                 body_close=match_close(self.m, k)))
        if len(hits) != 1:
            raise LostAnchor('%s: fn %s found %d times' % (self.path, name, len(hits)))
        return hits[0]

    def _depth(self, a, s):
        d = 0
        for ch in self.m[a:s]:
            if ch == '{':
                d += 1
            elif ch == '}':
                d -= 1
        return d

    def body(self, fn):
        """Verbatim body text *inside* the braces."""
        return self.text[fn['body_open'] + 1:fn['body_close']]

    def item_text(self, kind, name):
        """Verbatim text of a top-level `struct/enum Name {..}` item (attributes excluded)."""
        mm = re.search(r'(?m)^[ \t]*(pub(\([^)]*\))?\s+)?%s\s+%s\b[^{;]*\{' % (kind, re.escape(name)), self.m)
        if not mm:
            raise LostAnchor('%s: %s %s not found' % (self.path, kind, name))
        o = mm.end() - 1
        c = match_close(self.m, o)
        return self.text[mm.start():c + 1]


def item_attrs(src, kind, name):
    """Text of the attribute / doc-comment lines directly above a top-level item."""
    mm = re.search(r'(?m)^[ \t]*(pub(\([^)]*\))?\s+)?%s\s+%s\b[^{;(]*[{(;]' % (kind, re.escape(name)), src.m)
    if not mm:
        raise LostAnchor('%s: %s %s not found' % (src.path, kind, name))
    lines = src.text[:mm.start()].split('\n')
    out = []
    for ln in reversed(lines[:-1] if lines and lines[-1].strip() == '' else lines):
        st = ln.strip()
        if st.startswith('#[') or st.startswith('///') or st.startswith('//'):
            out.append(st)
        else:
            break
    return '\n'.join(reversed(out))


# ---- operations on a body (text + its mask) ----------------------------------------------

class Body:
    def __init__(self, text):
        self.text = text
        self.m = mask(text)

    def loops(self):
        """Return list of (kw_start, brace_open, brace_close) of loops in source order
        (for/while/loop), at any nesting depth."""
        res = []
        for mm in re.finditer(r'\b(for|while|loop)\b', self.m):
            k = mm.end()
            depth = 0
            n = len(self.m)
            while k < n:
                ch = self.m[k]
                if ch in '([':
                    depth += 1
                elif ch in ')]':
                    depth -= 1
                elif ch == '{' and depth == 0:
                    # `while let Some(x) = foo { ... }` : struct-literal braces cannot appear in
                    # loop heads without parentheses, so the first depth-0 brace is the body.
                    break
                k += 1
            if k >= n:
                raise LostAnchor('loop without body')
            res.append((mm.start(), k, match_close(self.m, k)))
        return res

    def top_match(self, scrutinee_re):
        """Find `match <scrutinee> {` and split into arms: returns (match_start, open, close,
        [(pattern_text, arm_text, arm_is_block)])."""
        mm = re.search(r'\bmatch\s+%s\s*\{' % scrutinee_re, self.m)
        if not mm:
            raise LostAnchor('match %s not found' % scrutinee_re)
        o = mm.end() - 1
        c = match_close(self.m, o)
        arms = []
        k = o + 1
        while True:
            # skip whitespace
            while k < c and self.m[k].isspace():
                k += 1
            if k >= c:
                break
            # pattern up to '=>' at depth 0
            p0 = k
            depth = 0
            while k < c:
                ch = self.m[k]
                if ch in '([{':
                    depth += 1
                elif ch in ')]}':
                    depth -= 1
                elif depth == 0 and self.m.startswith('=>', k):
                    break
                k += 1
            if k >= c:
                raise LostAnchor('arm without =>')
            pat = self.text[p0:k].strip()
            k += 2
            while self.m[k].isspace():
                k += 1
            if self.m[k] == '{':
                e = match_close(self.m, k)
                arm = self.text[k:e + 1]
                k = e + 1
                while k < c and (self.m[k].isspace() or self.m[k] == ','):
                    k += 1
                arms.append((pat, arm, True))
            else:
                a0 = k
                depth = 0
                while k < c:
                    ch = self.m[k]
                    if ch in '([{':
                        depth += 1
                    elif ch in ')]}':
                        depth -= 1
                    elif ch == ',' and depth == 0:
                        break
                    k += 1
                arm = self.text[a0:k].strip()
                k += 1
                arms.append((pat, arm, False))
        return mm.start(), o, c, arms


def strip_comments(text):
    """Remove // and /* */ comments (contents only matter for readability of generated units)."""
    m = mask(text)
    out = []
    i = 0
    n = len(text)
    while i < n:
        if text.startswith('//', i) and m[i:i+2] == '  ' or (text.startswith('//', i) and m[i] == ' '):
            j = text.find('\n', i)
            j = n if j < 0 else j
            i = j
        elif text.startswith('/*', i) and m[i] == ' ':
            j = text.find('*/', i)
            i = n if j < 0 else j + 2
        else:
            out.append(text[i])
            i += 1
    return ''.join(out)
