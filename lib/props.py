"""Per-property configuration: which units decide it, at what level, with which assumptions."""

UNITS = {
    'core': dict(template='contracts/core.rs',
                 what='U1 stack/util helpers, U2 can_emit guards (one obligation per arm), '
                      'U3 process_stack_ops effects (one obligation per arm) against the reference machine'),
}

COMMON_ASSUMPTIONS = [
    'Verus 0.2026.09.13 + z3, rustc (tool soundness)',
    'cell model (DESIGN 2.3): StackObjectRef is opaque with an immutable variant tag; new/borrow/borrow_mut/clone '
    'and derived Clone of StackObject preserve the tag; checked mechanically: every borrow_mut() site has the '
    '`if let StackObject::V(ref mut p) = *c.borrow_mut()` shape (lint_borrow_mut)',
    'RefCell borrow-flag panics are not modelled (argued by inspection)',
    'extraction rules listed under coverage.extraction_rules are semantics preserving',
    'usize is 64 bit (global size_of usize == 8)',
]

PROPS = {
    'C03': dict(
        title='Typed opcodes only ever receive operands of the kind they require',
        verus=['core'], kani=[],
        level='proof',
        assumptions=[
            'C03 is decided per function: can_emit(op) => reference kind precondition (per arm) and '
            'process_stack_ops keeps the simulated kinds compatible with the reference machine (per arm); '
            'the composition over a whole generation run relies on the generation loop only emitting opcodes '
            'that passed can_emit (get_valid_opcodes, by inspection until unit "driver" lands)',
        ]),
    'C17': dict(
        title='The simulated stack and memo mirror the reference machine after every opcode',
        verus=['core'], kani=[],
        level='proof',
        assumptions=[
            'process_stack_ops is called with exactly the bytes that were appended (emitters; arg_link precondition)',
        ]),
}
