"""Per-property configuration: which units decide it, at what level, with which assumptions."""

UNITS = {
    'core': dict(template='contracts/core.rs',
                 what='U1 stack/util helpers, U2 can_emit guards (one obligation per arm), '
                      'U3 process_stack_ops effects (one obligation per arm) against the reference machine'),
}

COMMON_ASSUMPTIONS = [
    'Verus 0.2026.09.13 + z3, rustc (tool soundness)',
    'cell model (DESIGN 2.3): StackObjectRef is opaque with an immutable variant tag; new/borrow/borrow_mut/clone '
    'and derived Clone of StackObject preserve the tag; checked mechanically: every borrow_mut() site has the '
    '`if let StackObject::V(ref mut p) = *c.borrow_mut()` shape (lint_borrow_mut)',
    'RefCell borrow-flag panics are not modelled (argued by inspection)',
    'extraction rules listed under coverage.extraction_rules are semantics preserving',
    'usize is 64 bit (global size_of usize == 8)',
]

PROPS = {
    'C03': dict(
        title='Typed opcodes only ever receive operands of the kind they require',
        verus=['core'], kani=[],
        level='proof',
        technique='Verus contracts on extracted real functions: per-arm can_emit guard soundness and per-arm process_stack_ops effect against a reference pickle machine',
        claim='Unbounded proof (all stacks, all depths) that each can_emit arm implies the reference kind precondition and that '
              'each process_stack_ops arm keeps the simulated kinds compatible with the reference machine; one named obligation per arm.',
        note='Trusted: Verus/z3, the opaque cell model (variant tag immutable; lint-checked), assumed std specs listed in evidence.trusted_base, '
             'extraction rules R1-R12. Composition over the generation loop is by the driver unit (until it lands: by inspection).',
        assumptions=[
            'C03 is decided per function: can_emit(op) => reference kind precondition (per arm) and '
            'process_stack_ops keeps the simulated kinds compatible with the reference machine (per arm); '
            'the composition over a whole generation run relies on the generation loop only emitting opcodes '
            'that passed can_emit (get_valid_opcodes, by inspection until unit "driver" lands)',
        ]),
    'C17': dict(
        title='The simulated stack and memo mirror the reference machine after every opcode',
        verus=['core'], kani=[],
        level='proof',
        technique='Verus contracts: process_stack_ops arm-by-arm simulation relation against a reference pickle machine (inductive step of the invariant)',
        claim='Unbounded proof of the inductive step: from any simulated state related to a reference state, every process_stack_ops arm '
              'produces a state related to ref_step (same depth, MARK positions, compatible kinds, same memo index set).',
        note='Trusted: Verus/z3, cell model, assumed std specs in evidence.trusted_base, extraction rules; the emitters pass exactly the '
             'emitted argument bytes (arg_link precondition; Kani side).',
        assumptions=[
            'process_stack_ops is called with exactly the bytes that were appended (emitters; arg_link precondition)',
        ]),
}

NOT_APPLICABLE = {
    'C01': 'check under construction in this session (chain U2-U5); will be claimed once the driver unit lands',
    'C02': 'check under construction in this session',
    'C04': 'check under construction in this session',
    'C05': 'check under construction in this session',
    'C06': 'check under construction in this session',
    'C07': 'check under construction in this session',
    'C08': 'check under construction in this session',
    'C09': 'check under construction in this session',
    'C10': 'check under construction in this session',
    'C11': 'check under construction in this session',
    'C12': 'check under construction in this session',
    'C13': 'front ends (main.rs clap/rayon/filesystem, bash wrapper, PyO3/Python) have no function boundary a contract can be put on and no deductive verifier here accepts them (DESIGN.md section 7)',
    'C14': 'heap reachability through Rc<RefCell<..>> cycles: no contract within reach of Verus (cell model has no heap) or Kani (recursive drop glue does not terminate in CBMC) can express or decide it (DESIGN.md section 7)',
    'C15': 'check under construction in this session',
    'C16': 'check under construction in this session',
    'C18': 'check under construction in this session',
}
