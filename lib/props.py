"""Per-property configuration: which units decide it, at what level, with which assumptions."""

UNITS = {
    'mutv': dict(template='contracts/mutv.rs',
                 what='U8 in Verus: StringLengthMutator, CharacterMutator (String and byte-string methods, any length) and TypeConfusionMutator (opcode_to_type, choose_wrong_type, generate_opcode_for_type, post_process)'),
    'core': dict(template='contracts/core.rs',
                 what='U1 stack/util helpers, U2 can_emit guards (one obligation per arm), '
                      'U3 process_stack_ops effects (one obligation per arm) against the reference machine'),
}

COMMON_ASSUMPTIONS = [
    'Verus 0.2026.09.13 + z3, rustc (tool soundness)',
    'cell model (DESIGN 2.3): StackObjectRef is opaque with an immutable variant tag; new/borrow/borrow_mut/clone '
    'and derived Clone of StackObject preserve the tag; checked mechanically: every borrow_mut() site has the '
    '`if let StackObject::V(ref mut p) = *c.borrow_mut()` shape (lint_borrow_mut)',
    'RefCell borrow-flag panics are not modelled (argued by inspection)',
    'extraction rules listed under coverage.extraction_rules are semantics preserving',
    'usize is 64 bit (global size_of usize == 8)',
]

# ---- Kani harnesses (kani/harness/*.rs) --------------------------------------------------------------
def _h(props, complete, bound, fn, panic):
    return dict(props=props, complete=complete, bound=bound, fn=fn, panic_props=panic)


HARNESS = {}
for _m, _fn in (('bitflip_int', 'BitFlipMutator::mutate_int'), ('bitflip_long', 'BitFlipMutator::mutate_long'),
                ('boundary_int', 'BoundaryMutator::mutate_int'), ('boundary_long', 'BoundaryMutator::mutate_long'),
                ('boundary_float', 'BoundaryMutator::mutate_float'), ('offbyone_int', 'OffByOneMutator::mutate_int'),
                ('offbyone_long', 'OffByOneMutator::mutate_long'), ('offbyone_memo', 'OffByOneMutator::mutate_memo_index'),
                ('memoindex', 'MemoIndexMutator::mutate_memo_index'), ('not_applicable', 'Mutator default methods')):
    for _s in ('arb', 'rand'):
        HARNESS['u8_%s_%s' % (_m, _s)] = _h(
            ['C15', 'C16'], True,
            'all values of the argument type, all rates (any f64), ' + ('all fuzzer byte strings of length 0..24 incl. exhausted'
                                                                        if _s == 'arb' else 'all PRNG outputs (ChaCha8 block output = kani::any())'),
            'src/mutators: ' + _fn, ['C16', 'C09'])
for _s in ('arb', 'rand'):
    HARNESS['u8_create_mode_' + _s] = _h(['C16'], True, 'both modes, all indices, all rates, all 2-byte emissions, all entropy',
                                         'src/mutators/mod.rs: MutatorKind::create (forwards unsafe_mode; behaviour of the created mutators in safe mode)', ['C16', 'C09'])
    HARNESS['u8_character_bytes_' + _s] = _h(['C15', 'C16'], False, 'byte strings of length 0..4 (all bytes), all rates, all entropy',
                                             'src/mutators/character.rs: CharacterMutator::mutate_bytes', ['C16', 'C09'])
    HARNESS['u8_typeconfusion_' + _s] = _h(['C15', 'C16', 'C04', 'C06', 'C10'], False,
                                           'output prefix 0..3 bytes, emission 0..3 bytes (all values), all rates, both modes, all entropy',
                                           'src/mutators/typeconfusion.rs: TypeConfusionMutator::post_process', ['C16', 'C09'])
_ARB = 'all fuzzer byte strings of length 0..10 (no scalar draw reads more than 8 bytes), exhausted input included'
_RND = 'all PRNG outputs (ChaCha8 block output replaced by kani::any())'
HARNESS.update({
    'u9_arb_choose_index': _h(['C18'], True, 'all n: usize; ' + _ARB, 'source.rs: choose_index (Arbitrary)', ['C18', 'C09']),
    'u9_arb_gen_range': _h(['C18'], True, 'all a, b: usize; ' + _ARB, 'source.rs: gen_range (Arbitrary)', ['C18', 'C09']),
    'u9_arb_gen_ascii_char': _h(['C18'], True, _ARB, 'source.rs: gen_ascii_char (Arbitrary)', ['C18', 'C09']),
    'u9_arb_scalars_total_and_fallback': _h(['C18'], True, _ARB, 'source.rs: gen_bool/u8/u16/u32/i32/i64/f64 (Arbitrary)', ['C18', 'C09']),
    'u9_arb_gen_bytes_bounded16': _h(['C18'], False, 'len <= 16; ' + _ARB, 'source.rs: gen_bytes (Arbitrary)', ['C18', 'C09']),
    'u9_rand_choose_index_grid': _h(['C18'], True, 'n in {0,1,2,3,95,255,256,257,65535,65536,65537,2^32,MAX-1,MAX} (the grid of the statement); ' + _RND,
                                    'source.rs: choose_index (Rand)', ['C18', 'C09']),
    'u9_rand_choose_index_bounded_2p16': _h(['C18'], False, 'all n <= 65536 (symbolic); ' + _RND, 'source.rs: choose_index (Rand)', ['C18', 'C09']),
    'u9_rand_gen_range_grid': _h(['C18'], True, 'a, b in the grid; ' + _RND, 'source.rs: gen_range (Rand)', ['C18', 'C09']),
    'u9_rand_gen_range_small': _h(['C18'], False, 'all a, b <= 1024 (symbolic); ' + _RND, 'source.rs: gen_range (Rand)', ['C18', 'C09']),
    'u9_rand_gen_ascii_char': _h(['C18'], True, _RND, 'source.rs: gen_ascii_char (Rand)', ['C18', 'C09']),
    'u9_rand_scalars_total': _h(['C18', 'C15'], True, _RND, 'source.rs: scalar draws (Rand); gen_f64 in [0,1)', ['C18', 'C09']),
    'u9_rand_gen_bytes_bounded16': _h(['C18'], False, 'len <= 16; ' + _RND, 'source.rs: gen_bytes (Rand)', ['C18', 'C09']),
})

HARNESS.update({
    'u7_as_u8_all_kinds': _h(['C04', 'C05'], True, 'all 68 opcode kinds', 'src/opcodes.rs: OpcodeKind::as_u8', ['C04', 'C09']),
    'u7_tables_exact': _h(['C05', 'C12'], True, 'all protocols 0..=5, concrete static tables, the real phf lookup',
                          'src/opcodes.rs: PICKLE_OPCODES', ['C05', 'C09']),
})
HARNESS.update({
    'u9_arb_choose_index_onto': _h(['C12'], True, 'all n in 1..=65536 and all t < n: an explicit 1- or 2-byte fuzzer input selects t',
                                   'source.rs: choose_index (Arbitrary) is onto', ['C12']),
    'u9_arb_gen_range_onto': _h(['C12'], True, 'all n in 1..=65536 and all t < n: an explicit 1- or 2-byte fuzzer input selects t',
                                   'source.rs: gen_range(0, n) (Arbitrary) is onto', ['C12']),
    'u9_arb_gen_bool_both': _h(['C12'], True, 'inputs 00 and 01', 'source.rs: gen_bool (Arbitrary) takes both values', ['C12']),
})
HARNESS.update({
    'u0_byte_order': _h(['C04', 'C06', 'C02'], True, 'all u16/u32/u64/i32/f64', 'std {to,from}_{le,be}_bytes vs the byte-order specs of contracts/shim.rs', ['C09']),
    'u0_saturating_and_min': _h(['C04', 'C09', 'C11'], True, 'all argument values', 'std saturating_add/saturating_sub/checked_sub/min vs shim specs', ['C09']),
    'u0_version_order_and_cast': _h(['C05', 'C06'], True, 'all pairs of versions', 'derived PartialOrd/PartialEq and `as u8` of Version vs ver_num', ['C09']),
    'u0_copy_le_u64_into_vec': _h(['C06'], True, 'every 12-byte vector, every offset that fits, every u64', 'slice copy_from_slice of to_le_bytes vs vf_copy_le_u64', ['C09']),
})
U0 = ['u0_byte_order', 'u0_saturating_and_min', 'u0_version_order_and_cast', 'u0_copy_le_u64_into_vec']
U7 = ['u7_as_u8_all_kinds', 'u7_tables_exact']
U8_QUICK = [n for n in HARNESS if n.startswith('u8_') and 'typeconfusion' not in n]
U8_THOROUGH = [n for n in HARNESS if n.startswith('u8_typeconfusion')]
U9_QUICK = [n for n in HARNESS if n.startswith('u9_') and n != 'u9_rand_choose_index_bounded_2p16' and 'onto' not in n and 'bool_both' not in n]
U9_THOROUGH = ['u9_rand_choose_index_bounded_2p16']

KANI_ASSUMPTIONS = [
    'Kani 0.68 / CBMC 6.11 (tool soundness); harnesses run on verbatim copies of /repo/src files (build/kani/crate/rsrc), '
    'the only edit being an appended `#[cfg(kani)] mod verif_harness;` line',
    'color_eyre replaced by a 20-line stand-in in the harness crate (its dependency backtrace does not build on Kani\'s toolchain)',
    'PRNG mode: ChaCha8 block output is replaced by kani::any() (over-approximation of every PRNG state); the ChaCha8Rng value itself is zeroed memory that is never read',
    'termination of loops is not proved by Kani (unwinding assertions are on: the stated unwind bounds are sufficient)',
]

PROPS = {
    'C03': dict(
        title='Typed opcodes only ever receive operands of the kind they require',
        verus=['core', 'mutv'],
        level='proof',
        technique='Verus contracts on extracted real functions: per-arm can_emit guard soundness and per-arm process_stack_ops effect against a reference pickle machine',
        claim='Unbounded proof (all stacks, all depths) that each can_emit arm implies the reference kind precondition and that '
              'each process_stack_ops arm keeps the simulated kinds compatible with the reference machine; one named obligation per arm.',
        note='Trusted: Verus/z3, the opaque cell model (variant tag immutable; lint-checked), assumed std specs listed in evidence.trusted_base, '
             'extraction rules R1-R12. Composition over the generation loop is by the driver unit (until it lands: by inspection).',
        assumptions=[
            'C03 is decided per function: can_emit(op) => reference kind precondition (per arm) and '
            'process_stack_ops keeps the simulated kinds compatible with the reference machine (per arm); '
            'the composition over a whole generation run relies on the generation loop only emitting opcodes '
            'that passed can_emit (get_valid_opcodes, by inspection until unit "driver" lands)',
        ]),
    'C12': dict(
        title='Every opcode of the protocol vocabulary is reachable',
        verus=['core'], kani_quick=['u7_tables_exact', 'u9_arb_choose_index_onto', 'u9_arb_gen_range_onto', 'u9_arb_gen_bool_both'],
        level='other',
        technique='contracts: per-arm completeness of can_emit on a witness state, get_valid_opcodes keeps every table entry whose guard must say yes, weighted_choice returns exactly the '
                  'alternative the entropy source drew, the FRAME decision for P >= 4 is a coin drawn from the source (Verus); candidate table == CPython vocabulary (Kani); '
                  'choice function onto and coin two-valued in fuzzer-bytes mode (Kani)',
        claim='Decides the part contracts can decide: (i) the candidate table of protocol P is exactly the CPython vocabulary introduced up to P (nothing missing); '
              '(ii) for every opcode the real guard answers yes in a concrete witness state reached by a listed trace of unconditionally valid opcodes (no guard is '
              'unsatisfiable or too strict for its witness); (iii) no such opcode is dropped between the table and the choice (get_valid_opcodes completeness, weighted_choice == candidates[draw]); '
              '(iv) in fuzzer-bytes mode the uniform choice can select every alternative and the FRAME coin, which alone decides framing for P >= 4, takes both values. '
              'The existence of a ChaCha8 seed in a fixed range realising the choices is an existential over a PRNG and is not decided.',
        note='level "other": a satisfiability-by-witness argument, not an exploration of seeds. Witness traces are listed in contracts/witnesses.md; that each trace is accepted '
             'by the reference machine and ends in the witness state is by inspection (short concrete traces).',
        explanation='guard completeness on witness states (one Verus obligation per can_emit arm) + table exactness + onto-ness of the choice function; seed existential not decided',
        assumptions=['PRNG-seed existential not decided (no contract can express it)', 'witness traces accepted by the reference machine: by inspection of contracts/witnesses.md']),
    'C15': dict(
        title='The mutation rate is honoured at its extremes',
        verus=['mutv', 'core'], kani_quick=U8_QUICK + ['u9_rand_scalars_total'], kani_thorough=U8_THOROUGH, scans=['rateone'],
        level='proof',
        technique='Kani (CBMC) function-level harnesses on the real mutator methods: rate 0.0 => None / output unchanged, rate 1.0 => Some, for every value and every entropy state of both sources',
        claim='For every built-in mutator method on integers, floats and memo indices: complete proof over the full value domain, every f64 rate and '
              'every entropy state (all fuzzer byte strings incl. exhausted; all PRNG outputs) that rate 0.0 yields None and rate 1.0 yields Some. '
              'Byte-string (character) and post-emission rewrite (type confusion) methods: same clauses at a stated length bound.',
        note='String/byte-string mutators (StringLength, Character) are verified in Verus for every length, with String operations (chars/take/collect/push/push_str/clone) '
             'as assumed std specs and the rate gate should_mutate as an assumed contract over uninterpreted rate predicates (that contract is what the Kani harnesses prove through '
             'every integer mutator). The five dispatchers of generator/mutation.rs (mutate_int/float/memo_index/string/bytes) are verified in unit core against a functional '
             'specification: the result and the entropy state left behind equal first_*(mutators, 0, value, entropy, rate) = the first registered mutator that fires on the ORIGINAL '
             'value, each mutator seeing the entropy state its predecessors left (one mutator call = an uninterpreted deterministic function of mutator, value, entropy state, rate). Trusted: Kani/CBMC, ChaCha8 output over-approximated by kani::any().',
        assumptions=['should_mutate(source, 0.0) == false and should_mutate(source, 1.0) == true are assumed in the Verus unit (proved by Kani through the integer mutators)',
                     'String std operations used by the string mutators are assumed specs (listed in trusted_base)']),
    'C16': dict(
        title='Each mutator performs exactly its documented transformation',
        verus=['mutv'], kani_quick=U8_QUICK, kani_thorough=U8_THOROUGH,
        level='proof',
        technique='Kani (CBMC) function-level harnesses on the real mutator methods, full value domain, both entropy sources',
        claim='Complete proofs (all i32/i64/f64/usize values, all entropy states of both sources, no panic/overflow) of the transformation clause of '
              'bit-flip, boundary, off-by-one, memo-index; bounded proofs for character (bytes) and type confusion.',
        note='String-valued transformations (StringLength both kinds, Character both kinds) are proved in Verus for every length, modulo assumed std String specs. '
             'Type confusion: proved in Verus (unit mutv: every output/emission length, all clauses incl. frame and one-complete-opcode) and cross-checked by a bounded Kani harness (thorough tier). Trusted: Kani/CBMC, ChaCha8 stub.',
        assumptions=['String std operations (chars/take/collect/push/push_str/clone) are assumed specs (listed in trusted_base)']),
    'C18': dict(
        title='Entropy adapters stay in range and never fail, even on exhausted input',
        verus=[], kani_quick=U9_QUICK, kani_thorough=U9_THOROUGH,
        level='proof',
        technique='Kani (CBMC) loop-free/full-domain harnesses on impl EntropySource for GenerationSource, both variants',
        claim='Fuzzer-bytes source: complete for all n, a, b: usize and all byte strings of length 0..10 (no scalar draw reads more than 8 bytes): '
              'results in range, printable characters, fixed fallbacks on exhausted input, no panic. PRNG source: complete for the grid of the '
              'statement with every PRNG output; symbolic n <= 2^16 / a,b <= 1024 as bounded extras.',
        note='PRNG source: ChaCha8 output replaced by kani::any(); rand range reduction runs for real but full 64-bit symbolic n does not terminate in CBMC '
             '(128-bit multiply) so n ranges over the stated grid. gen_bytes bounded to len <= 16 (dead code in the generator).',
        assumptions=['PRNG variant: n, a, b range over the grid {0,1,2,3,95,255,256,257,65535,65536,65537,2^32,MAX-1,MAX}, not all of usize']),
    'C17': dict(
        title='The simulated stack and memo mirror the reference machine after every opcode',
        verus=['core', 'mutv'],
        level='proof',
        technique='Verus contracts: process_stack_ops arm-by-arm simulation relation against a reference pickle machine (inductive step of the invariant)',
        claim='Unbounded proof of the inductive step: from any simulated state related to a reference state, every process_stack_ops arm '
              'produces a state related to ref_step (same depth, MARK positions, compatible kinds, same memo index set).',
        note='Trusted: Verus/z3, cell model, assumed std specs in evidence.trusted_base, extraction rules; the emitters pass exactly the '
             'emitted argument bytes (arg_link precondition; Kani side).',
        assumptions=[
            'process_stack_ops is called with exactly the bytes that were appended (emitters; arg_link precondition)',
        ]),
}

_CORE_ASSUME = [
    'mutate_int/float/string/bytes/memo_index (dyn dispatch over registered mutators), post_process_emission, get_random_module, create_snapshot are external_body in the Verus unit with '
    'the contract stated there (length / printable-ASCII preservation of the string mutators is proved per mutator in unit mutv); post_process_emission is the identity in safe mode (Kani harnesses u8_typeconfusion_*, u8_not_applicable_*)',
    'byte <-> trace link: each appended chunk starts with the opcode byte recorded in the trace (proved for the arms verified in Verus); that the whole '
    'chunk decodes to exactly that opcode and that concatenated chunks decode to the concatenated trace is not machine-checked here',
    'registered mutators are the seven built-in kinds, created with unsafe_mode equal to the generator flag (as the CLI and Python bindings do)',
    'min_opcodes and max_opcodes are below 2^32 (precondition of generate_internal; LONG_BINPUT index cast)',
    'entropy adapter contracts used by the Verus unit (choose_index / gen_range in range) are the ones proved by the Kani harnesses u9_*',
    'PICKLE_OPCODES table content (vf_pickle_opcodes) is assumed in the Verus unit: every entry of the protocol-v table was introduced in protocol <= v, NONE is in every table',
]
_NOTE = 'Trusted: Verus/z3; the opaque cell model (variant tag immutable; lint-checked every run); assumed std specs and payload shims listed in evidence.trusted_base; extraction rules R1-R16; emit_int/emit_string/emit_bytes/emit_global and the mutate_* helpers are assumed to have the abstract effect stated in emit_post (exactly one opcode of the chosen family appended, process_stack_ops called with it); the byte <-> trace link (each appended chunk decodes to the recorded opcode; concatenation of self-delimiting chunks decodes to the concatenated trace) is outside this unit; mutators are created with unsafe_mode equal to the generator flag; opcode counts < 2^32.'

PROPS.update({
    'C01': dict(
        title='Safe-mode pickles obey the reference stack discipline', verus=['core', 'mutv'], level='proof',
        technique='Verus contracts on extracted real functions: can_emit guard soundness, process_stack_ops simulation relation, cleanup_for_stop, generate_internal loop invariant (trace accepted by a reference pickle machine)',
        claim='Unbounded proof (every protocol, entropy stream, opcode range, flag combination, stack depth) that the opcode trace emitted by generate_internal without unsafe '
              'mutations satisfies the reference stack preconditions at every step and that STOP finds exactly one non-MARK object.',
        note=_NOTE, assumptions=_CORE_ASSUME),
    'C02': dict(
        title='Memo discipline', verus=['core', 'mutv'], level='proof',
        technique='Verus contracts: memo emitter arms (PUT index == memo size and fresh, GET index in key set for any mutated index), guards, process_stack_ops memo arms, contiguity invariant',
        claim='Unbounded proof (any memo size, any mutator outcome for the index) that GET-family indices are defined, PUT-family indices are fresh, and no PUT executes on MARK/empty stack.',
        note=_NOTE, assumptions=_CORE_ASSUME),
    'C04': dict(
        title='Every output is a well-formed opcode stream', verus=['core', 'mutv'], kani_quick=['u7_as_u8_all_kinds'] + U0, kani_thorough=U8_THOROUGH, scans=['textformats', 'stdlibdata', 'clifwd'], level='proof',
        technique='Verus contracts: every emitter (all emit_and_process arms, emit_int/emit_string/emit_bytes/emit_global, emit_opcode, emit_proto, the FRAME patch) appends exactly one opcode whose bytes satisfy a hand-written wire-format predicate per argument class; Kani for the post-emission rewrite',
        claim='Safe mode: unbounded proof that each emission is exactly one well-formed opcode under the CPython table (known byte, complete argument, length prefix == payload length, '
              'EXT codes >= 1 under the signed reader, memo index non-negative) and that the output is header + these chunks + collapse tail + one final STOP. '
              'Text arguments (decimal / float / quoted / newline-terminated lines) rest on assumed facts about format! and the escaping chain, stated as shim specs. '
              'Unsafe mode (any mutator set, any rate): the same emitter bodies are verified a second time against a contract that does not need the simulation to agree with the '
              'bytes (emit_and_process_u, emit_*_u, generate_internal_u): every emission is nothing or exactly one well-formed opcode, also after a type-confusion rewrite, and the '
              'output is header + chunks + tail + STOP.',
        note=_NOTE + ' text_ok(class, bytes) is an uninterpreted predicate established only by the assumed specs of the formatting shims (format!("{}\\n"), the STRING escape chain, '
             'f64 Display); that each chunk decodes to exactly its opcode and that concatenated chunks decode to the concatenated trace is the (unproved) framing argument. '
             'Unsafe mode rests on the contract of post_process_emission (only TypeConfusionMutator overrides post_process; its contract is proved in unit mutv).',
        assumptions=_CORE_ASSUME + ['format!/escape facts: decimal text of an integer parses back; f64 Display is accepted by Python float(); the STRING escape chain yields a valid quoted literal; '
                                    'a printable-ASCII line contains no inner newline (text_ok is established only through these assumed specs)',
                                    'post_process_emission: at most a type-confusion rewrite of the current emission (dyn dispatch over the registered built-in mutators is assumed)']),
    'C05': dict(
        title='Only opcodes of the requested protocol, right header', verus=['core', 'mutv'], kani_quick=U7, scans=['stdlibdata', 'clifwd'], level='proof',
        technique='Verus contracts: candidate set within the protocol table, emitted opcode in the chosen family and protocol, collapse-phase opcodes in protocol, PROTO header clause of generate_internal',
        claim='Proof that every opcode recorded in the trace (body and collapse tail) was introduced in protocol <= P, PROTO P is the first two bytes iff P >= 2.',
        note=_NOTE + ' Table content is assumed in Verus and proved exactly equal to the CPython vocabulary by the Kani harness u7_tables_exact; the protocol-0 7-bit-ASCII clause for payload bytes is not covered yet.',
        assumptions=_CORE_ASSUME),
    'C06': dict(
        title='FRAME unique, leads the body, spans exactly the rest', verus=['core', 'mutv'], kani_quick=U0, kani_thorough=U8_THOROUGH, scans=['clifwd'], level='proof',
        technique='Verus contract on generate_internal (FRAME back-patch arithmetic and position), can_emit(Frame)=false, unreachable Frame emitter arm; Kani frame clause of the type-confusion rewrite',
        claim='Safe mode: proof that FRAME occurs only for P >= 4, at byte offset 2, with length == total length - 11, and that no body/tail opcode is FRAME. '
              'Any mode incl. unsafe mutations: generate_internal_u proves the same FRAME clauses with the emitters\' any-mode contracts (rewrites never touch bytes before the '
              'current emission; the length is patched after all of them).',
        note=_NOTE + ' Unsafe mode rests on the contract of post_process_emission (proved for TypeConfusionMutator in unit mutv).',
        assumptions=_CORE_ASSUME),
    'C07': dict(
        title='Generation is a pure function of configuration and entropy input', verus=['core'], scans=['purity', 'clidet'], level='proof',
        technique='Verus contract: memo key enumeration is canonical whatever order the hash map yields (sorted, unique); mechanical purity scan of the library sources; functional determinism of the verified functions',
        claim='Proof that the only order-dependent library call whose result can reach the output (HashMap key enumeration at the three GET sites) is '
              'canonicalised before use (for ANY enumeration order the chosen-from vector equals the unique ascending sequence of the key set), plus a '
              'mechanical scan showing no other source of nondeterminism (OS randomness, clocks, thread/process identity, mutable globals, address-dependent '
              'values, allocation capacities, hash-order iteration) occurs in the library outside whitelisted, justified sites.',
        note=_NOTE + ' The thread/process/schedule quantifier is discharged by a frame argument (a Generator owns all its state; the library has no shared mutable '
             'state: scan), not by exploration. main.rs batch mode under rayon is outside every contract (one fresh Generator per index); it is cross-checked BOUNDED on the real binary '
             '(xcheck.cli_determinism: single-file mode twice and batch mode with 1 and 8 workers must write identical bytes) and listed under bounded.',
        assumptions=_CORE_ASSUME + ['exec functions verified by Verus are deterministic functions of their arguments and of the results of the external functions they call',
                                    'rayon batch mode in main.rs is not covered (outside any function boundary a contract can be put on)']),
    'C08': dict(
        title='Generator reuse: each call independent of earlier calls', verus=['core'], scans=['purity'], level='proof',
        technique='Verus contracts: reset() postcondition and a generate_internal postcondition that mentions the old state only through its configuration; '
                  'mechanical purity scan (no value that survives reset() outside the modelled state - allocation capacity, addresses, globals - is read by the library)',
        claim='Proof that the returned bytes are header + body + tail + STOP built from a freshly reset state: nothing of the previous output, stack, memo or PROTO flag survives into the result.',
        note=_NOTE + ' Equality of two runs additionally needs determinism of the callees (C07). generate()/generate_from_arbitrary() wrappers by inspection.',
        assumptions=_CORE_ASSUME),
    'C09': dict(
        title='Generation is total', verus=['core', 'mutv'], kani_quick=U8_QUICK + U9_QUICK, scans=['stdlibdata'], level='proof',
        technique='Verus exec-safety obligations (overflow, index bounds, unwrap) and decreases clauses on every loop of the functions under contract, generate_internal returns Ok; Kani panic/overflow checks on mutators and entropy adapters',
        claim='Proof of panic-freedom, termination and Ok result for the functions under contract, for all inputs and in every mode: process_stack_ops, cleanup_for_stop and the '
              'emitters are verified for ANY simulated state (unsafe mutations let the simulation drift), generate_internal_u returns Ok for every configuration.',
        note=_NOTE + ' Not covered: RefCell borrow-flag panics, allocation failure, native stack depth of recursive Drop, string mutators, text emitters (format!).',
        assumptions=_CORE_ASSUME + ['RefCell borrow flags, allocation failure and native stack overflow of recursive drop are not modelled']),
    'C10': dict(
        title='EXT and buffer opcodes only when enabled', verus=['core', 'mutv'], kani_thorough=U8_THOROUGH, level='proof', scans=['cliflags'],
        technique='Verus contracts: can_emit flag clauses, emitted opcode in the chosen family (flags_ok), collapse-phase opcode set, generate_internal trace clause; '
                  'Generator::default/new and every with_* builder under a whole-frame contract (the two flags are false after new() and change only through their own builder); '
                  'Kani: type-confusion replacement is never EXT/buffer',
        claim='Proof that no opcode recorded in the trace (safe mode) and no chunk appended in any mode (incl. type-confusion replacements) is EXT*/NEXT_BUFFER/READONLY_BUFFER '
              'unless the corresponding flag is set, and that a flag is set only by new()+with_ext_opcodes(true) / with_buffer_opcodes(true) (or a direct field write by the caller).',
        note=_NOTE + ' The command-line forwarding of --allow-ext/--allow-buffer in src/main.rs (clap, rayon, filesystem) is outside the verifier; it is cross-checked BOUNDED '
                     '(real binary, 4 flag combinations x protocols 2..5 x seeds, single-file and batch mode) and listed under bounded, not under obligations.',
        assumptions=_CORE_ASSUME + ['src/main.rs flag forwarding: bounded cross-check only (xcheck.cli_flags)',
                                    'compiler-derived Default impls of State and Stack (templates require the #[derive(Default)] to be present)']),
    'C11': dict(
        title='Opcode-count knobs bound the program size', verus=['core', 'mutv'], scans=['clifwd'], level='proof',
        technique='Verus contract on generate_internal: loop runs exactly T times, one opcode per iteration, tail <= 2T+1',
        claim='Proof that the body has exactly T opcodes with min <= T <= max (T = min when max <= min) and the collapse tail has at most 2T+1 opcodes. '
              'Any mode (unsafe mutations included, budgets below 2^31): exactly T body emissions, each appending one non-empty, complete opcode (the simulated memo keys are 0..len in every mode, '
              'so BINGET always has a candidate).',
        note=_NOTE, assumptions=_CORE_ASSUME),
})

NOT_APPLICABLE = {
    'C13': 'front ends (main.rs clap/rayon/filesystem, bash wrapper, PyO3/Python) have no function boundary a contract can be put on and no deductive verifier here accepts them (DESIGN.md section 7)',
    'C14': 'heap reachability through Rc<RefCell<..>> cycles: no contract within reach of Verus (cell model has no heap) or Kani (recursive drop glue does not terminate in CBMC) can express or decide it (DESIGN.md section 7)',
}
