#!/bin/bash
# dev helper like vrun.sh but against a clean snapshot of /repo (VERIF_REPO=/tmp/wt-dev) and a private output
# directory, so it can be used while checks / regressions are running on /repo
export VERIF_REPO=${VERIF_REPO:-/tmp/wt-dev}
mkdir -p /tmp/vt/devout
cd /verif && python3 lib/vtry.py contracts/$1.rs /tmp/vt/devout/$1.rs || exit 2
cd /tmp/vt/devout && verus $1.rs --output-json --time --multiple-errors 5 ${VFLAGS} > /tmp/vt/$1.json 2> /tmp/vt/$1.err
python3 - $1 <<'PY'
import json,sys,re
u=sys.argv[1]
try:
    d=json.load(open('/tmp/vt/%s.json'%u))
except Exception as e:
    print(open('/tmp/vt/%s.err'%u).read()[:6000]); sys.exit(1)
print(d['verification-results'])
fb=[f for m in d['times-ms']['smt']['smt-run-module-times'] for f in m['function-breakdown']]
print('smt total ms', d['times-ms']['smt']['total'], ' slowest:', sorted([(f['time'],f['function']) for f in fb])[-3:])
print('FAILED:', [f['function'].split('::')[-1] for f in fb if not f['success']])
PY
grep -v "^warning\|deprecated\|^ *= note\|^$" /tmp/vt/$1.err | grep -A${2:-4} "^error" | head -${3:-60}
