"""Build the Kani harness crate from /repo's working tree and run harnesses."""
import hashlib
import json
import os
import re
import shutil
import subprocess
import time

VERIF = os.path.dirname(os.path.dirname(os.path.abspath(__file__)))
REPO = os.environ.get('VERIF_REPO', '/repo')
KROOT = os.environ.get('VERIF_KROOT') or os.path.join(VERIF, 'build', 'kani' + (('-' + os.environ['VERIF_SLOT']) if os.environ.get('VERIF_SLOT') else ''))
CRATE = os.path.join(KROOT, 'crate')
CACHE = os.path.join(VERIF, 'build', 'cache')
SRC_FILES = ['opcodes.rs', 'protocol.rs', 'stack.rs', 'state.rs']
SRC_DIRS = ['generator', 'mutators']


class Undecided(Exception):
    pass


def tree_hash(paths):
    h = hashlib.sha256()
    for p in sorted(paths):
        h.update(p.encode())
        h.update(open(p, 'rb').read())
    return h.hexdigest()


def prepare():
    """Copy the real sources, append the harness module lines, write Cargo files.  Returns the
    hash of everything that influences verification results."""
    os.makedirs(CRATE, exist_ok=True)
    rsrc = os.path.join(CRATE, 'rsrc')
    if os.path.exists(rsrc):
        shutil.rmtree(rsrc)
    os.makedirs(rsrc)
    for f in SRC_FILES:
        shutil.copy(os.path.join(REPO, 'src', f), os.path.join(rsrc, f))
    for d in SRC_DIRS:
        shutil.copytree(os.path.join(REPO, 'src', d), os.path.join(rsrc, d))
    # data file included via include_str!("../../data/stdlib_complete.txt") from rsrc/generator/
    os.makedirs(os.path.join(CRATE, 'data'), exist_ok=True)
    shutil.copy(os.path.join(REPO, 'data', 'stdlib_complete.txt'), os.path.join(CRATE, 'data', 'stdlib_complete.txt'))
    for mod, hf in (('generator', 'gen_harness.rs'), ('mutators', 'mut_harness.rs')):
        src = os.path.join(VERIF, 'kani', 'harness', hf)
        if os.path.exists(src):
            shutil.copy(src, os.path.join(rsrc, mod, 'verif_harness.rs'))
            with open(os.path.join(rsrc, mod, 'mod.rs'), 'a') as fh:
                fh.write('\n#[cfg(kani)]\nmod verif_harness;\n')
    nat = os.path.join(VERIF, 'kani', 'harness', 'mut_native.rs')
    if os.path.exists(nat):
        shutil.copy(nat, os.path.join(rsrc, 'mutators', 'verif_native.rs'))
        with open(os.path.join(rsrc, 'mutators', 'mod.rs'), 'a') as fh:
            fh.write('\n#[cfg(all(test, not(kani)))]\nmod verif_native;\n')
    gnat = os.path.join(VERIF, 'kani', 'harness', 'gen_native.rs')
    if os.path.exists(gnat):
        shutil.copy(gnat, os.path.join(rsrc, 'generator', 'verif_native.rs'))
        with open(os.path.join(rsrc, 'generator', 'mod.rs'), 'a') as fh:
            fh.write('\n#[cfg(all(test, not(kani)))]\nmod verif_native;\n')
    gen = os.path.join(VERIF, 'build', 'gen', 'ref_tables_kani.rs')
    if os.path.exists(gen):
        shutil.copy(gen, os.path.join(rsrc, 'generator', 'ref_tables_kani.rs'))
        shutil.copy(gen, os.path.join(rsrc, 'mutators', 'ref_tables_kani.rs'))
    os.makedirs(os.path.join(CRATE, 'src'), exist_ok=True)
    shutil.copy(os.path.join(VERIF, 'kani', 'lib.rs.in'), os.path.join(CRATE, 'src', 'lib.rs'))
    shutil.copy(os.path.join(VERIF, 'kani', 'Cargo.toml.in'), os.path.join(CRATE, 'Cargo.toml'))
    if os.path.exists(os.path.join(CRATE, 'stubs')):
        shutil.rmtree(os.path.join(CRATE, 'stubs'))
    shutil.copytree(os.path.join(VERIF, 'kani', 'stubs'), os.path.join(CRATE, 'stubs'))
    if not os.path.exists(os.path.join(CRATE, 'Cargo.lock')):
        shutil.copy(os.path.join(REPO, 'Cargo.lock'), os.path.join(CRATE, 'Cargo.lock'))
    files = []
    for root, _, fs in os.walk(CRATE):
        if '/target' in root:
            continue
        for f in fs:
            if f != 'Cargo.lock':
                files.append(os.path.join(root, f))
    return tree_hash(files)


MEM_LIMIT_GB = int(os.environ.get('VERIF_KANI_MEM_GB', '8'))


def run_limited(cmd, env, timeout):
    """Run cargo kani in its own process group with an address-space limit per process; on timeout
    the whole group (cargo, kani-driver, every cbmc) is killed."""
    import resource
    import signal

    def pre():
        os.setsid()
        lim = MEM_LIMIT_GB * (1 << 30)
        resource.setrlimit(resource.RLIMIT_AS, (lim, lim))
    p = subprocess.Popen(cmd, cwd=CRATE, env=env, stdout=subprocess.PIPE, stderr=subprocess.STDOUT, text=True,
                         preexec_fn=pre)
    try:
        out, _ = p.communicate(timeout=timeout)
    except subprocess.TimeoutExpired:
        try:
            os.killpg(p.pid, signal.SIGKILL)
        except ProcessLookupError:
            pass
        out, _ = p.communicate()
        out = (out or '') + '\nTIMEOUT after %ds' % timeout
    return out or ''


def kani_version():
    try:
        return subprocess.run(['cargo', 'kani', '--version'], capture_output=True, text=True).stdout.strip().split('\n')[0]
    except OSError:
        return 'missing'


def run_harness(name, crate_hash, extra=(), timeout=1800, use_cache=True):
    """Run one harness; returns dict(status= 'SUCCESS'|'FAILURE'|..., checks, failed_checks, time)."""
    os.makedirs(CACHE, exist_ok=True)
    key = hashlib.sha256((crate_hash + '\0' + name + '\0' + ' '.join(extra) + '\0' + kani_version()).encode()).hexdigest()
    cpath = os.path.join(CACHE, 'kani-' + key + '.json')
    if use_cache and os.path.exists(cpath):
        r = json.load(open(cpath))
        r['cache_hit'] = True
        return r
    env = dict(os.environ, CARGO_NET_OFFLINE='true', CARGO_TARGET_DIR=os.path.join(KROOT, 'target'))
    cmd = ['cargo', 'kani', '-Z', 'function-contracts', '-Z', 'stubbing', '--harness', name] + list(extra)
    t0 = time.time()
    out = run_limited(cmd, env, timeout)
    rc = 0
    wall = round(time.time() - t0, 2)
    r = parse(name, out, rc)
    r.update(cmd=' '.join(cmd), wall_s=wall, cache_hit=False)
    if r['status'] in ('SUCCESS', 'FAILURE'):
        json.dump(r, open(cpath, 'w'))
    return r


def parse(name, out, rc):
    status = 'UNKNOWN'
    m = re.search(r'VERIFICATION:- (SUCCESSFUL|FAILED)', out)
    if m:
        status = 'SUCCESS' if m.group(1) == 'SUCCESSFUL' else 'FAILURE'
    if 'TIMEOUT after' in out:
        status = 'TIMEOUT'
    checks = len(re.findall(r'^Check \d+:', out, re.M))
    failed = []
    for mm in re.finditer(r'^Check \d+: (\S+)\n\s+- Status: FAILURE\n\s+- Description: "([^"]*)"\n\s+- Location: ([^\n]*)', out, re.M):
        failed.append(dict(check=mm.group(1), description=mm.group(2), location=mm.group(3).strip()))
    unsupported = [f for f in failed if 'unsupported' in f['description'].lower() or 'not currently supported' in f['description']]
    mt = re.search(r'Verification Time: ([\d.]+)s', out)
    tail = out[-3000:] if status not in ('SUCCESS',) else ''
    nharn = re.search(r'Complete - (\d+) successfully verified harnesses, (\d+) failures, (\d+) total', out)
    return dict(harness=name, status=status, rc=rc, checks=checks, failed_checks=failed, unsupported=unsupported,
                solver_s=float(mt.group(1)) if mt else None, tail=tail,
                harness_total=int(nharn.group(3)) if nharn else None)


def run_group(names, crate_hash, jobs=12, timeout=3000, use_cache=True, extra=()):
    """Verify several harnesses with one `cargo kani -j` invocation.  Returns {name: result}.
    Cached per harness (key: crate content hash + harness name + kani version)."""
    os.makedirs(CACHE, exist_ok=True)
    ver = kani_version()
    results = {}
    todo = []
    for n in names:
        key = hashlib.sha256((crate_hash + '\0' + n + '\0' + ' '.join(extra) + '\0' + ver).encode()).hexdigest()
        cpath = os.path.join(CACHE, 'kani-' + key + '.json')
        if use_cache and os.path.exists(cpath):
            r = json.load(open(cpath))
            r['cache_hit'] = True
            results[n] = r
        else:
            todo.append((n, cpath))
    if not todo:
        return results
    env = dict(os.environ, CARGO_NET_OFFLINE='true', CARGO_TARGET_DIR=os.path.join(KROOT, 'target'))
    cmd = ['cargo', 'kani', '-Z', 'function-contracts', '-Z', 'stubbing', '-j', str(jobs), '--output-format=terse'] + list(extra)
    for n, _ in todo:
        cmd += ['--harness', n]
    t0 = time.time()
    out = run_limited(cmd, env, timeout)
    wall = round(time.time() - t0, 2)
    if re.search(r'^error(\[E\d+\])?:', out, re.M) and 'Checking harness' not in out:
        raise Undecided('kani harness crate does not build: ' + out[-3000:])
    # map thread -> harness -> block
    blocks = {}
    cur = None
    thread_h = {}
    for ln in out.split('\n'):
        m = re.match(r'^Thread (\d+): Checking harness (\S+?)\.\.\.', ln)
        if m:
            thread_h[m.group(1)] = m.group(2).split('::')[-1]
            cur = None
            continue
        m = re.match(r'^Thread (\d+):\s*$', ln)
        if m:
            cur = thread_h.get(m.group(1))
            blocks.setdefault(cur, [])
            continue
        if cur is not None:
            blocks[cur].append(ln)
    for n, cpath in todo:
        blk = '\n'.join(blocks.get(n, []))
        status = 'UNKNOWN'
        m = re.search(r'VERIFICATION:- (SUCCESSFUL|FAILED)', blk)
        if m:
            status = 'SUCCESS' if m.group(1) == 'SUCCESSFUL' else 'FAILURE'
        elif 'TIMEOUT after' in out:
            status = 'TIMEOUT'
        if status == 'FAILURE' and (re.search(r'out of memory|std::bad_alloc|CBMC failed|timed out', blk, re.I)
                                    or 'Failed Checks:' not in blk):
            status = 'RESOURCE'      # not a verdict
        mc = re.search(r'\*\* (\d+) of (\d+) failed', blk)
        mt = re.search(r'Verification Time: ([\d.]+)s', blk)
        failed = [dict(description=x.strip()) for x in re.findall(r'Failed Checks: ([^\n]*)', blk)]
        r = dict(harness=n, status=status, checks=int(mc.group(2)) if mc else 0,
                 failed_count=int(mc.group(1)) if mc else None, failed_checks=failed,
                 unsupported=[f for f in failed if 'not currently supported' in f['description'] or 'unsupported' in f['description'].lower()],
                 solver_s=float(mt.group(1)) if mt else None, group_wall_s=wall, cmd=' '.join(cmd[:9]) + ' --harness ' + n,
                 tail=blk[-2000:] if status != 'SUCCESS' else '', cache_hit=False)
        if status in ('SUCCESS', 'FAILURE'):
            json.dump(r, open(cpath, 'w'))
        results[n] = r
    return results


def list_harnesses():
    """Harness names defined in the harness files (a harness the driver asks for must exist)."""
    names = []
    for hf in ('gen_harness.rs', 'mut_harness.rs'):
        p = os.path.join(VERIF, 'kani', 'harness', hf)
        if not os.path.exists(p):
            continue
        txt = open(p).read()
        names += re.findall(r'#\[kani::proof\][^{]*?fn\s+(\w+)\s*\(', txt, re.S)
        for mm in re.finditer(r'both!\(\s*(\w+)\s*,\s*(\w+)\s*,', txt):
            names += [mm.group(1), mm.group(2)]
    return names


def playback(name, crate_hash, timeout=900):
    """Counterexample for a failed harness: re-run it with concrete playback, append the generated
    unit test to the harness module, and run it NATIVELY (ordinary rustc build of the copied real
    sources, no CBMC).  Returns dict(tests, native_reproduced, native_output, native_cmd)."""
    env = dict(os.environ, CARGO_NET_OFFLINE='true', CARGO_TARGET_DIR=os.path.join(KROOT, 'target'))
    cmd = ['cargo', 'kani', '-Z', 'function-contracts', '-Z', 'stubbing', '-Z', 'concrete-playback',
           '--concrete-playback=print', '--harness', name]
    out = run_limited(cmd, env, timeout)
    tests = []
    for mm in re.finditer(r'/// Check for `[^`]*`: ([^\n]*)\n\s*#\[test\]\n\s*fn (kani_concrete_playback_%s_\d+)\(\) \{(.*?)\n\}\n' % re.escape(name), out, re.S):
        vals = re.findall(r'vec!\[([\d, ]*)\]', mm.group(3))
        tests.append(dict(check=mm.group(1).strip(), test=mm.group(2), text='#[test]\nfn %s() {%s\n}\n' % (mm.group(2), mm.group(3)),
                          any_values=[[int(x) for x in v.split(',') if x.strip()] for v in vals]))
    res = dict(harness=name, tests=[dict(check=t['check'], test=t['test'], any_values=t['any_values']) for t in tests],
               native_reproduced=False, native_output='')
    if not tests:
        res['native_output'] = out[-1500:]
        return res
    mod = 'generator' if name.startswith(('u9_', 'u6_', 'u7_', 'u5_')) else 'mutators'
    pth = os.path.join(CRATE, 'rsrc', mod, 'verif_harness.rs')
    with open(pth, 'a') as fh:
        fh.write('\n// ---- appended by the driver: Kani concrete playback of a failed harness ----\n' + tests[0]['text'])
    cmd2 = ['cargo', 'kani', 'playback', '-Z', 'concrete-playback', '--', tests[0]['test']]
    out2 = run_limited(cmd2, env, timeout)
    res['native_cmd'] = ' '.join(cmd2)
    res['native_output'] = out2[-2500:]
    res['native_reproduced'] = bool(re.search(r'test result: FAILED', out2)) and 'error[' not in out2
    return res


def native_mutator_standin(timeout=1500):
    """BOUNDED stand-in for C15/C16: run kani/harness/mut_native.rs natively (plain `cargo test`, real
    code, no CBMC).  Returns (violations: list of dict(tag, text), output_tail, cmd)."""
    prepare()
    env = dict(os.environ, CARGO_NET_OFFLINE='true', CARGO_TARGET_DIR=os.path.join(KROOT, 'native-target'))
    cmd = ['cargo', 'test', '--offline', '--lib', 'verif_native', '--', '--nocapture', '--test-threads', '2']
    out = run_limited(cmd, env, timeout)
    if 'test result:' not in out:
        raise Undecided('native mutator stand-in did not run: ' + out[-1500:])
    vio = []
    for mm in re.finditer(r'^NATIVE-VIOLATION \[(C\d+)\] ([^\n]*)$', out, re.M):
        vio.append(dict(tag=mm.group(1), text=mm.group(2)))
    # a test that died without one of our own reports (e.g. a panic outside the guarded calls) is a panic of the
    # real code on this input family: "mutators never panic" (C16)
    if not vio and re.search(r'test \S*verif_native\S* \.\.\. FAILED', out):
        pm = re.search(r"panicked at ([^\n]*)\n([^\n]*)", out)
        vio.append(dict(tag='C16', text='a native stand-in test failed: ' + (pm.group(0).replace('\n', ' ')[:300] if pm else 'see output')))
    return vio, out[-1500:], 'cd %s && CARGO_TARGET_DIR=%s %s' % (CRATE, os.path.join(KROOT, 'native-target'), ' '.join(cmd))
