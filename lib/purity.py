"""C07 purity scan (DESIGN section 5, C07 (c)): a mechanical scan of the library sources for anything
that could make generation depend on something other than configuration and entropy input.

It is a lint over /repo/src (library files only), run on every C07 check.  Each finding names the file,
line and rule; findings at whitelisted sites (with the reason they are harmless) are reported as
`allowed`.  Any other finding is a failed obligation of C07.
"""
import os
import re

import rsx

REPO = os.environ.get('VERIF_REPO', '/repo')
LIB_FILES = ['src/lib.rs', 'src/opcodes.rs', 'src/protocol.rs', 'src/stack.rs', 'src/state.rs',
             'src/generator/mod.rs', 'src/generator/core.rs', 'src/generator/emission.rs',
             'src/generator/mutation.rs', 'src/generator/source.rs', 'src/generator/stack_ops.rs',
             'src/generator/utils.rs', 'src/generator/validation.rs',
             'src/mutators/mod.rs', 'src/mutators/bitflip.rs', 'src/mutators/boundary.rs',
             'src/mutators/character.rs', 'src/mutators/memoindex.rs', 'src/mutators/offbyone.rs',
             'src/mutators/stringlen.rs', 'src/mutators/typeconfusion.rs']

RULES = [
    ('os-randomness', r'\bfrom_os_rng\b|\bfrom_entropy\b|\bthread_rng\b|\brand::rng\s*\(|\bOsRng\b|\bgetrandom\b|\brand::random\b|\bThreadRng\b|\brand::rngs::|\bfastrand\b|(?<![\w.:])random\s*(::\s*<[^>]*>\s*)?\('),
    ('wall-clock', r'\bSystemTime\b|\bInstant\b|\bUNIX_EPOCH\b|\bchrono::'),
    ('thread-or-process-identity', r'\bthread::current\b|\bThreadId\b|\bprocess::id\b|\bstd::env::|\benv::var'),
    ('global-mutable-state', r'\bstatic\s+mut\b|\bthread_local!|\bAtomic(?:U|I|Bool|Usize)\w*|\blazy_static!|\bMutex\b|\bRwLock\b'),
    ('address-dependent-value', r'\bas_ptr\s*\(|\bas\s+\*const\b|\bas\s+\*mut\b|\baddr\s*\(|\{:p\}'),
    ('hash-order-iteration', r'memo\s*\.\s*(?:iter|iter_mut|into_iter)\s*\(|\bin\s+&?(?:mut\s+)?self\s*\.\s*state\s*\.\s*memo\b|\.keys\s*\(\)|\.values\s*\(\)|\.values_mut\s*\(\)|\.drain\s*\(\)|\.into_keys\s*\(\)|\.into_values\s*\(\)'),
    ('allocation-dependent-value', r'\.\s*capacity\s*\(\s*\)|\bspare_capacity_mut\b|\bmem::size_of_val\b'),
    ('hash-randomness', r'\bRandomState\b|\bDefaultHasher\b|\bBuildHasher\b'),
    ('filesystem-or-network', r'\bstd::fs\b|\bFile::|\bTcpStream\b|\bstd::net\b'),
]

# (file, rule, regex on the line, reason).  A whitelist entry only matches its own file and rule.
ALLOWED = [
    ('src/generator/mod.rs', 'os-randomness', r'ChaCha8Rng::from_os_rng\(\)',
     'only on the branch `self.seed == None`; C07 quantifies over generators with a seed set (or fuzzer bytes)'),
    ('src/stack.rs', 'address-dependent-value', r'Rc::as_ptr\(&self\.0\)',
     'pointer value is fed to a Hasher only (impl Hash for StackObjectRef); hash sets/maps keyed by it are never iterated '
     'by any emitter (checked by rule hash-order-iteration) and no emitter reads a hash value'),
    ('src/generator/emission.rs', 'hash-order-iteration', r'self\s*\.state\s*\.memo\s*\.keys\(\)|^\s*\.keys\(\)',
     'memo key enumeration; the three sites are under contract: the vector is sorted before an index is chosen '
     '(obligations emit_and_process__Get/BinGet/LongBinGet, clause keys canonical)'),
    ('src/generator/emission.rs', 'global-mutable-state', r'^\s*use std::sync::OnceLock;|static STDLIB_MODULES: OnceLock<Vec<String>> = OnceLock::new\(\);',
     'STDLIB_MODULES caches the lines of a compile-time constant (include_str!); its value does not depend on the caller '
     '(only this one static is whitelisted: a cache whose content depends on a generator would make the output depend on process history)'),
]

# payload iteration inside impl Hash for StackObject (src/stack.rs) walks HashMap/HashSet contents with
# `for .. in v`; it only feeds a Hasher.  Detected separately because it has no method-call syntax.
FOR_OVER_HASH = re.compile(r'for\s+(\(?[\w\s,]+\)?)\s+in\s+(\w+)\s*\{')


# which property a rule speaks for (default: C07 only).  A value that survives reset() outside the modelled
# state makes a call depend on the generator's history (C08) but not on anything outside configuration,
# entropy and history, so it is not a C07 matter; mutable globals are both.
RULE_PROPS = {'allocation-dependent-value': ('C08',), 'global-mutable-state': ('C07', 'C08'), 'static-item': ('C07', 'C08')}


def scan(prop='C07'):
    return [f for f in _scan() if prop in RULE_PROPS.get(f['rule'], ('C07',)) or f['rule'] == 'missing-file']


# ---- whitelist of call names ---------------------------------------------------------------------
# The rules above are a blacklist.  To keep "nothing else influences the output" from resting on a list of
# things we happened to think of, every method / path / macro call name used by the library is compared
# with the vetted list lib/purity_calls.txt (the names used at the pinned commit, each a deterministic
# function of its arguments' logical value - or covered by a rule above).  A name that is not on the list
# is NOT a violation: it makes the C07/C08 verdict undecided (`soft`), and the two-process / reused-generator
# stand-in decides.
CALLS_FILE = os.path.join(os.path.dirname(os.path.abspath(__file__)), 'purity_calls.txt')


def call_names(src):
    m = re.search(r'(?m)^#\[cfg\(test\)\]', src)
    if m:
        src = src[:m.start()]
    masked = rsx.mask(src)
    out = []
    for mm in re.finditer(r'\.\s*([a-z_]\w*)\s*(?:::\s*<[^>]*>\s*)?\(', masked):
        out.append(('.' + mm.group(1), mm.start()))
    for mm in re.finditer(r'\b((?:[A-Za-z_]\w*\s*::\s*)+[a-z_]\w*)\s*(?:::\s*<[^>]*>\s*)?\(', masked):
        out.append((re.sub(r'\s', '', mm.group(1)), mm.start()))
    for mm in re.finditer(r'\b([a-z_]\w*)!\s*[\(\[\{]', masked):
        out.append((mm.group(1) + '!', mm.start()))
    return [(n, src.count('\n', 0, pos) + 1) for n, pos in out]


def unvetted_calls():
    vetted = set(l.strip() for l in open(CALLS_FILE) if l.strip() and not l.startswith('#'))
    # functions defined in the library itself are covered by their own bodies
    defined = set()
    srcs = {}
    for rel in LIB_FILES:
        path = os.path.join(REPO, rel)
        if os.path.exists(path):
            srcs[rel] = open(path, encoding='utf-8').read()
            for mm in re.finditer(r'\bfn\s+(\w+)', rsx.mask(srcs[rel])):
                defined.add(mm.group(1))
    res = []
    for rel, src in srcs.items():
        for n, line in call_names(src):
            base = n.lstrip('.').split('::')[-1].rstrip('!')
            if n in vetted or (not n.endswith('!') and base in defined):
                continue
            res.append(dict(file=rel, line=line, rule='unvetted-call', text=n, allowed=False, soft=True,
                            reason='call name not on the vetted list (lib/purity_calls.txt): determinism not established by the scan'))
    return res


def _scan():
    findings = []
    for rel in LIB_FILES:
        path = os.path.join(REPO, rel)
        if not os.path.exists(path):
            findings.append(dict(file=rel, line=0, rule='missing-file', text='', allowed=False, reason=''))
            continue
        src = open(path, encoding='utf-8').read()
        # stop at the unit-test module: tests are not part of the library behaviour
        m = re.search(r'(?m)^#\[cfg\(test\)\]', src)
        if m:
            src = src[:m.start()]
        masked = rsx.mask(src)
        for no, (ln, raw) in enumerate(zip(masked.split('\n'), src.split('\n')), 1):
            for rule, rx in RULES:
                if re.search(rx, ln):
                    allowed, reason = False, ''
                    for f, r, arx, why in ALLOWED:
                        if f == rel and r == rule and re.search(arx, ln):
                            allowed, reason = True, why
                    findings.append(dict(file=rel, line=no, rule=rule, text=raw.strip()[:160], allowed=allowed, reason=reason))
    # the OnceLock static is matched by 'global-mutable-state' only through the word OnceLock: add it
    for rel in LIB_FILES:
        path = os.path.join(REPO, rel)
        if not os.path.exists(path):
            continue
        src = open(path, encoding='utf-8').read()
        m = re.search(r'(?m)^#\[cfg\(test\)\]', src)
        if m:
            src = src[:m.start()]
        masked = rsx.mask(src)
        for no, (ln, raw) in enumerate(zip(masked.split('\n'), src.split('\n')), 1):
            if re.search(r'\bstatic\s+\w+\s*:', ln) and not re.search(r'\bstatic\s+mut\b', ln):
                is_const_like = bool(re.search(r'phf::Map|:\s*&\[u8\]|:\s*&(\'static\s+)?str\b|static STDLIB_MODULES: OnceLock<Vec<String>>', ln))
                findings.append(dict(file=rel, line=no, rule='static-item', text=raw.strip()[:160], allowed=is_const_like,
                                     reason='immutable static initialised from compile-time data' if is_const_like else ''))
    return findings


if __name__ == '__main__':
    import json
    import sys
    fs = scan(sys.argv[1] if len(sys.argv) > 1 else 'C07')
    print(json.dumps(fs, indent=1))
    bad = [f for f in fs if not f['allowed']]
    print('%d findings, %d not allowed' % (len(fs), len(bad)))
