import sys, os
sys.path.insert(0, os.path.dirname(__file__))
import extract
ex = extract.build_unit(sys.argv[1], sys.argv[2])
print(len(ex.functions), 'functions;', sorted(ex.rules_used))
