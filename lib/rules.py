"""Mechanical rewrite rules applied to extracted function bodies (DESIGN.md section 2.1).

Every rule is purely syntactic, applies only where its pattern matches exactly, and raises
LostAnchor (=> UNDECIDED, exit 2) when the pattern it was asked to rewrite is not there.  Bodies
are otherwise left token for token.
"""
import re

from rsx import LostAnchor, Body, mask, match_close

DOC = {
    'R1': 'for (i, x) in V.iter().enumerate().rev() { B }  ->  counting-down while loop binding i and x = &V[i]; B verbatim',
    'R2': 'for (c, x) in V.iter().rev().enumerate() { B }  ->  counting-up while loop binding c and x = &V[V.len()-1-c]; B verbatim',
    'R3': 'V.iter().any(|x| E)  ->  while loop returning true at the first element satisfying E',
    'R4': 'T::from_le_bytes([..]) / x.to_le_bytes() / to_be_bytes / from_be_bytes -> vf_* shim functions with vstd byte-order specs',
    'R5': 'container payload operations (HashMap/HashSet/Vec of StackObjectRef contents) are replaced by opaque shim calls: payload contents are not modelled, only variant tags',
    'R6': 'str/utf8/parse/format/split expressions inside process_stack_ops are replaced by opaque shim calls with uninterpreted results',
    'R7': 'color_eyre::Result / eyre! / ? -> local Result<T, VfError>',
    'R8': 'function declared external_body with the contract it is proved against elsewhere (named in evidence)',
    'R9': 'one struct field type replaced by an opaque stand-in (Vec<Box<dyn Mutator>> is outside Verus)',
    'R10': 'top-level `match opcode {..}` split into one function per arm plus a generated dispatcher that is itself verified against the shared contract',
    'R11': 'is_some_and(|c| E) -> match on the Option with the closure body inlined',
    'R18': 'for m in &self.mutators { B } -> index loop over the opaque list of registered mutators (vf_mutators_len / vf_mutator_at)',
    'R20': 'E >= / > / <= / < Version::Vk -> vf_version_{ge,gt,le,lt}(E, Version::Vk): derived PartialOrd of the fieldless enum Version (declaration order)',
    'R19': 'builder methods: `mut self` parameter -> `self` plus `let mut vf_self = self;` with self renamed in the body (Verus rejects `mut self`)',
    'R17': 'alpha-renaming of a local variable whose name is a reserved word inside verus! (int)',
    'R16': 'for _ in 0..N { B } -> let mut vf_i = 0; while vf_i < N { B; vf_i += 1 } (B without continue)',
    'R15': 'X.iter().filter(|&&op| P).copied().collect() -> explicit while loop pushing the elements that satisfy P, in order',
    'R14': 'ghost threading: calls of contracted functions get ghost arguments (Ghost(..)) appended and ghost bookkeeping statements after them; executable arguments unchanged',
    'R12': 'statement-level text substitution listed in the template (exact old text -> new text), used for std calls Verus has no spec for',
}


def _ws(s):
    return re.sub(r'\s+', '', s)


def r1(text, args, label):
    m = mask(text)
    mm = re.search(r'for\s*\(\s*(\w+)\s*,\s*(\w+)\s*\)\s*in\s*([\w.\s]+?)\s*\.iter\(\)\s*\.enumerate\(\)\s*\.rev\(\)\s*\{', m)
    if not mm:
        raise LostAnchor('%s: R1 pattern not found' % label)
    i, x, v = mm.group(1), mm.group(2), _ws(mm.group(3))
    o = mm.end() - 1
    c = match_close(m, o)
    body = text[o + 1:c]
    new = ('let mut vf_n: usize = %s.len();\n        while vf_n > 0 {\n            vf_n -= 1;\n'
           '            let %s: usize = vf_n;\n            let %s = &%s[%s];%s}' % (v, i, x, v, i, body))
    return text[:mm.start()] + new + text[c + 1:]


def r2(text, args, label):
    m = mask(text)
    mm = re.search(r'for\s*\(\s*(\w+)\s*,\s*(\w+)\s*\)\s*in\s*([\w.\s]+?)\s*\.iter\(\)\s*\.rev\(\)\s*\.enumerate\(\)\s*\{', m)
    if not mm:
        raise LostAnchor('%s: R2 pattern not found' % label)
    cnt, x, v = mm.group(1), mm.group(2), _ws(mm.group(3))
    o = mm.end() - 1
    c = match_close(m, o)
    body = text[o + 1:c]
    new = ('let mut vf_c: usize = 0;\n        while vf_c < %s.len() {\n'
           '            let %s: usize = vf_c;\n            let %s = &%s[%s.len() - 1 - %s];\n            vf_c += 1;%s}'
           % (v, cnt, x, v, v, cnt, body))
    return text[:mm.start()] + new + text[c + 1:]


def r3(text, args, label):
    m = mask(text)
    mm = re.search(r'([\w.\s]+?)\s*\.iter\(\)\s*\.any\(\s*\|\s*(\w+)\s*\|', m)
    if not mm:
        raise LostAnchor('%s: R3 pattern not found' % label)
    v, x = _ws(mm.group(1)), mm.group(2)
    o = m.index('(', m.index('.any', mm.start()))
    c = match_close(m, o)
    e = text[mm.end():c].strip()
    new = ('{\n        let mut vf_i: usize = 0;\n        while vf_i < %s.len() {\n            let %s = &%s[vf_i];\n'
           '            if %s {\n                return true;\n            }\n            vf_i += 1;\n        }\n        false\n    }'
           % (v, x, v, e))
    start = mm.start() + (len(mm.group(0)) - len(mm.group(0).lstrip()))
    return text[:start] + new + text[c + 1:]


def r11(text, args, label):
    """X.is_some_and(|c| E)  ->  (match X { Some(c) => E, _ => false })  -- all occurrences."""
    count = 0
    while True:
        m = mask(text)
        mm = re.search(r'\.\s*is_some_and\(\s*\|\s*(\w+)\s*\|', m)
        if not mm:
            break
        c_name = mm.group(1)
        o = m.index('(', mm.start())
        c = match_close(m, o)
        e = text[mm.end():c].strip()
        # receiver: walk back over a method-call chain `self . a () . b ()` (identifiers, dots,
        # balanced parens, whitespace)
        k = mm.start()
        j = k
        while j > 0:
            ch = m[j - 1]
            if ch.isalnum() or ch in '_.' or ch.isspace():
                j -= 1
            elif ch == ')':
                depth = 0
                t = j - 1
                while t >= 0:
                    if m[t] == ')':
                        depth += 1
                    elif m[t] == '(':
                        depth -= 1
                        if depth == 0:
                            break
                    t -= 1
                j = t
            else:
                break
        recv = text[j:k]
        lead = len(recv) - len(recv.lstrip())
        # do not swallow a leading operator keyword such as `&&` (not alnum so already excluded)
        recv_s = recv.strip()
        if not recv_s.startswith('self'):
            raise LostAnchor('%s: R11 receiver not understood: %s' % (label, recv_s[:40]))
        new = '(match %s { Some(%s) => %s, _ => false })' % (_ws(recv_s), c_name, e)
        text = text[:j + lead] + new + text[c + 1:]
        count += 1
    if count == 0:
        raise LostAnchor('%s: R11 pattern not found' % label)
    return text


def _balanced(g):
    depth = 0
    for ch in mask(g):
        if ch in '([{':
            depth += 1
        elif ch in ')]}':
            depth -= 1
            if depth < 0:
                return False
    return depth == 0


def r12(text, args, label, every=False):
    """args = [old, new].  old: literal text; runs of blanks match any whitespace (also none next to
    punctuation); `...` matches the shortest bracket-balanced text.  Exactly one match required.
    In <new>, $1 $2 .. stand for the wildcard texts."""
    old, new = args
    parts = []
    for part in old.split('...'):
        toks = part.split()
        parts.append(re.compile(r'\s*'.join(re.escape(t).replace(r'\.', r'\s*\.\s*') for t in toks)))
    hits = []
    for m0 in parts[0].finditer(text):
        pos = m0.end()
        groups = []
        ok = True
        for rx in parts[1:]:
            found = None
            for p2 in range(pos, len(text) + 1):
                mm = rx.match(text, p2)
                if mm and _balanced(text[pos:p2]):
                    found = mm
                    break
            if not found:
                ok = False
                break
            groups.append(text[pos:found.start()].strip())
            pos = found.end()
        if ok:
            hits.append((m0.start(), pos, groups))
    if every:
        if not hits:
            raise LostAnchor('%s: R12 `%s` matched 0 times' % (label, old))
        res, pos = [], 0
        for a, b, groups in hits:
            if a < pos:
                continue
            out = new
            for k, g in enumerate(groups):
                out = out.replace('$%d' % (k + 1), g)
            res.append(text[pos:a] + out)
            pos = b
        return ''.join(res) + text[pos:]
    if len(hits) != 1:
        raise LostAnchor('%s: R12 `%s` matched %d times' % (label, old, len(hits)))
    a, b, groups = hits[0]
    out = new
    for k, g in enumerate(groups):
        out = out.replace('$%d' % (k + 1), g)
    return text[:a] + out + text[b:]


def r12all(text, args, label):
    return r12(text, args, label, every=True)


def r4(text, args, label):
    """(E as T).to_le_bytes()  ->  vf_T_to_le_bytes(E as T)   for T in u16/u32/u64/i32, any bracket-free or
    singly-bracketed E.  All occurrences; no-op when there is none."""
    m = mask(text)
    out, pos = [], 0
    for mm in re.finditer(r'\(\s*((?:[^()]|\([^()]*\))+?)\s+as\s+(u16|u32|u64|i32)\s*\)\s*\.\s*to_le_bytes\s*\(\s*\)', m):
        out.append(text[pos:mm.start()])
        out.append('vf_%s_to_le_bytes(%s as %s)' % (mm.group(2), text[mm.start(1):mm.end(1)], mm.group(2)))
        pos = mm.end()
    return ''.join(out) + text[pos:]


def r18(text, args, label):
    """for mutator in &self.mutators { B }  ->  index loop over the opaque mutator list:
    let mut vf_k = 0; while vf_k < vf_mutators_len(&self.mutators) { let mutator = vf_mutator_at(&self.mutators, vf_k); vf_k += 1; B }
    (B may `break` or `continue`: the index is advanced before B).  All occurrences."""
    n = 0
    while True:
        m = mask(text)
        mm = re.search(r'for\s+(\w+)\s+in\s+&self\s*\.\s*mutators\s*\{', m)
        if not mm:
            break
        var = mm.group(1)
        o = mm.end() - 1
        c = match_close(m, o)
        body = text[o + 1:c]
        # the index is advanced BEFORE the body, so a `continue` in B goes on with the next mutator exactly as in the for loop
        new = ('let mut vf_k: usize = 0;\n        while vf_k < vf_mutators_len(&self.mutators) {\n'
               '            let %s = vf_mutator_at(&self.mutators, vf_k);\n            vf_k += 1;%s}' % (var, body))
        text = text[:mm.start()] + new + text[c + 1:]
        n += 1
    if n == 0:
        raise LostAnchor('%s: R18 pattern not found' % label)
    return text


def r20(text, args, label):
    """E <cmp> Version::Vk   ->   vf_version_{ge,gt,le,lt}(E, Version::Vk)   for E a path / field expression
    (derived PartialOrd of the fieldless enum Version = declaration order; Verus has no spec for the derive).
    All occurrences; no-op when there is none."""
    m = mask(text)
    names = {'>=': 'ge', '>': 'gt', '<=': 'le', '<': 'lt'}
    out, pos = [], 0
    for mm in re.finditer(r'((?:\*\s*)?[A-Za-z_][\w]*(?:\s*\.\s*[A-Za-z_]\w*)*)\s*(>=|<=|>|<)\s*(Version\s*::\s*V[0-5])\b', m):
        out.append(text[pos:mm.start()])
        out.append('vf_version_%s(%s, %s)' % (names[mm.group(2)], text[mm.start(1):mm.end(1)], re.sub(r'\s', '', mm.group(3))))
        pos = mm.end()
    return ''.join(out) + text[pos:]


def r19(text, args, label):
    """fn f(mut self, ..) -> Self { B }  ->  fn f(self, ..) -> Self { let mut vf_self = self; B[self := vf_self] }
    (a `mut` by-value parameter is a local rebinding; Verus does not accept `mut self`).  The signature half is
    done by `//@sigsubst mut self => self`."""
    m = mask(text)
    out, pos = [], 0
    for mm in re.finditer(r'(?<![\w.])self(?!\w)', m):
        out.append(text[pos:mm.start()] + 'vf_self')
        pos = mm.end()
    return '\n        let mut vf_self = self;' + ''.join(out) + text[pos:]


def r17(text, args, label):
    """alpha-rename a local variable whose name is reserved inside verus! (e.g. `int`): args = [old, new]"""
    old, new = args
    m = mask(text)
    out, pos, n = [], 0, 0
    for mm in re.finditer(r'(?<![\w.])%s(?!\w)' % re.escape(old), m):
        out.append(text[pos:mm.start()] + new)
        pos = mm.end()
        n += 1
    if n == 0:
        raise LostAnchor('%s: R17 identifier %s not found' % (label, old))
    return ''.join(out) + text[pos:]


def r16(text, args, label):
    """for _ in 0..N { B }  ->  let mut vf_i: usize = 0; while vf_i < N { B vf_i += 1; }   (B has no `continue`)"""
    m = mask(text)
    mm = re.search(r'for\s+_\s+in\s+0\s*\.\.\s*(\w+)\s*\{', m)
    if not mm:
        raise LostAnchor('%s: R16 pattern not found' % label)
    n = mm.group(1)
    o = mm.end() - 1
    c = match_close(m, o)
    body = text[o + 1:c]
    if re.search(r'\bcontinue\b', mask(body)):
        raise LostAnchor('%s: R16 loop body contains continue' % label)
    new = 'let mut vf_i: usize = 0;\n        while vf_i < %s {%s    vf_i += 1;\n        }' % (n, body)
    return text[:mm.start()] + new + text[c + 1:]


def r15(text, args, label):
    """X.iter().filter(|&&op| P).copied().collect()  ->  explicit loop pushing the elements that satisfy P
    (same order).  Optional args: text appended to the call arguments of `self.F(` inside P is not
    needed -- ghost arguments are added by R14 afterwards."""
    m = mask(text)
    mm = re.search(r'([\w.]+)\s*\.\s*iter\(\)\s*\.\s*filter\(\s*\|\s*&&(\w+)\s*\|', m)
    if not mm:
        raise LostAnchor('%s: R15 pattern not found' % label)
    v, x = mm.group(1), mm.group(2)
    o = m.index('(', m.index('.filter', mm.start()))
    c = match_close(m, o)
    pred = text[mm.end():c].strip()
    tail = re.match(r'\s*\.copied\(\)\s*\.collect\(\)', m[c + 1:])
    if not tail:
        raise LostAnchor('%s: R15 expects .copied().collect() after the filter' % label)
    end = c + 1 + tail.end()
    ety = args[0] if args else 'OpcodeKind'
    new = ('{\n        let mut vf_out: Vec<%s> = Vec::new();\n        let mut vf_i: usize = 0;\n' % ety +
           '        while vf_i < %s.len() {\n            let %s = %s[vf_i];\n            if %s {\n                vf_out.push(%s);\n            }\n'
           '            vf_i += 1;\n        }\n        vf_out\n    }' % (v, x, v, pred, x))
    return text[:mm.start()] + new + text[end:]


def r14(text, args, label):
    """Ghost threading: every call statement `self.F(ARGS);` (or expression `self.F(ARGS)`) of a
    contracted function F gets ghost arguments appended and ghost bookkeeping after it.
    args = [F, template...]; in the template `$ARGS` is the original argument list and `$1` the first
    argument.  Only ghost text is added; the executable call keeps its original arguments."""
    fname = args[0]
    tmpl = ' '.join(args[1:])
    m = mask(text)
    out = []
    pos = 0
    count = 0
    for mm in re.finditer(r'self\s*\.\s*%s\s*\(' % re.escape(fname), m):
        o = mm.end() - 1
        c = match_close(m, o)
        arglist = text[o + 1:c].strip()
        first = arglist.split(',')[0].strip() if arglist else ''
        # statement form `...;` -> replace including the semicolon
        end = c + 1
        k = end
        while k < len(m) and m[k].isspace():
            k += 1
        stmt = k < len(m) and m[k] == ';'
        rep = tmpl.replace('$ARGS', arglist).replace('$1', first)
        out.append(text[pos:mm.start()])
        out.append(rep)
        pos = (k + 1) if (stmt and rep.rstrip().endswith('}')) else end
        count += 1
    if count == 0:
        raise LostAnchor('%s: R14 no call of %s' % (label, fname))
    out.append(text[pos:])
    return ''.join(out)


RULES = {'R20': r20, 'R19': r19, 'R4': r4, 'R18': r18, 'R17': r17, 'R16': r16, 'R15': r15, 'R12ALL': r12all, 'R14': r14, 'R1': r1, 'R2': r2, 'R3': r3, 'R11': r11, 'R12': r12}


def apply(name, text, args, label):
    if name not in RULES:
        raise LostAnchor('%s: unknown rewrite rule %s' % (label, name))
    return RULES[name](text, args, label)
