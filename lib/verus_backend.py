"""Run one Verus unit: expand the template from /repo's working tree, verify, attribute failures."""
import hashlib
import json
import os
import re
import subprocess
import time

import extract
import rules
from rsx import LostAnchor

VERIF = os.path.dirname(os.path.dirname(os.path.abspath(__file__)))
BUILD = os.path.join(VERIF, 'build')
CACHE = os.path.join(BUILD, 'cache')

FAIL_KINDS = (
    'postcondition not satisfied', 'precondition not satisfied', 'invariant not satisfied',
    'loop invariant not satisfied', 'assertion failed', 'possible arithmetic underflow/overflow',
    'precondition not met', 'possible division by zero', 'decreases not satisfied',
    'unreachable', 'possible bit shift underflow/overflow', 'recommendation not met',
    'could not prove termination',
)
UNDECIDED_KINDS = ('Resource limit', 'rlimit', 'timed out', 'not supported', 'does not yet support',
                   'error[E', 'cannot find', 'mismatched types', 'internal error', 'panicked')


class Undecided(Exception):
    pass


def verus_version():
    try:
        out = subprocess.run(['verus', '--version'], capture_output=True, text=True).stdout
        m = re.search(r'Version:\s*(\S+)', out)
        return m.group(1) if m else 'unknown'
    except OSError:
        return 'missing'


def scan_trusted(text):
    """Mechanical scan of a generated unit: every item that is assumed rather than proved."""
    items = []
    lines = text.split('\n')
    for i, ln in enumerate(lines):
        s = ln.strip()
        if s.startswith('//'):
            continue
        if 'external_body' in s or 'verifier::external' in s:
            # name = next fn/struct line
            for j in range(i, min(i + 6, len(lines))):
                m = re.search(r'\b(fn|struct)\s+(\w+)', lines[j])
                if m:
                    items.append('external_body %s %s' % (m.group(1), m.group(2)))
                    break
        m = re.search(r'assume_specification\s*(<[^\[]*>)?\s*\[([^\]]+(\][^\]]*)?)\]', s)
        if m and 'assume_specification' in s:
            items.append('assume_specification ' + re.sub(r'\s+', ' ', s.split('[', 1)[1].split('(', 1)[0]).strip(' ]'))
        m = re.search(r'\buninterp\s+spec\s+fn\s+(\w+)', s)
        if m:
            items.append('uninterp spec fn ' + m.group(1))
        if re.search(r'\badmit\s*\(', s):
            items.append('admit() at unit line %d' % (i + 1))
        if re.search(r'(?<![\w:])assume\s*\(', s):
            items.append('assume() at unit line %d' % (i + 1))
    seen = []
    for it in items:
        if it not in seen:
            seen.append(it)
    return seen


def lint_borrow_mut(text):
    """Tag-stability lint (DESIGN 2.3): every borrow_mut() must occur in the shape
    `if let StackObject::V(ref mut p) = *c.borrow_mut()`; a direct assignment through borrow_mut
    could change a cell's variant, which the cell model does not allow."""
    bad = []
    for i, ln in enumerate(text.split('\n')):
        s = ln.strip()
        if s.startswith('//') or 'fn borrow_mut' in s:
            continue
        if 'borrow_mut()' in s:
            if not re.search(r'if\s+let\s+StackObject::\w+\s*\(\s*ref\s+mut\s+\w+\s*\)\s*=\s*\*\s*\w+\.borrow_mut\(\)', s):
                bad.append('unit line %d: %s' % (i + 1, s[:100]))
    return bad


def lint_cell_hash_eq():
    """Cell-model lint (DESIGN 2.3): Hash and PartialEq of StackObjectRef must be pointer based.  The
    argument that no RefCell borrow-flag panic can happen while a RefMut is live (SETITEM/ADDITEMS insert
    keys into a container they hold mutably borrowed) rests on these impls never calling borrow()."""
    import rsx
    bad = []
    path = os.path.join(os.environ.get('VERIF_REPO', '/repo'), 'src', 'stack.rs')
    try:
        src = rsx.Source(path)
    except OSError as e:
        return ['src/stack.rs unreadable: %s' % e]
    # the assumed clone() of StackObjectRef is the derived one (an Rc clone: the same cell, hence the same kind)
    try:
        attrs = rsx.item_attrs(src, 'struct', 'StackObjectRef')
        ders = set(x.strip() for d in re.findall(r'#\[derive\(([^)]*)\)\]', attrs) for x in d.split(','))
        if 'Clone' not in ders:
            bad.append('struct StackObjectRef no longer derives Clone (the cell model assumes the derived Rc clone)')
    except Exception as e:  # noqa: BLE001
        bad.append('struct StackObjectRef not found: %s' % e)
    for tr in ('Hash', 'PartialEq'):
        spans = list(src.impl_blocks(r'impl %s for StackObjectRef' % tr))
        if len(spans) != 1:
            bad.append('impl %s for StackObjectRef found %d times' % (tr, len(spans)))
            continue
        a, b = spans[0]
        body = src.m[a:b]
        if re.search(r'\.\s*borrow(_mut)?\s*\(', body):
            bad.append('impl %s for StackObjectRef borrows the cell (must be pointer based: Rc::as_ptr / Rc::ptr_eq)' % tr)
    return bad


def lint_nested_borrows():
    """Cell-model lint for C09 (DESIGN 2.3): RefCell borrow flags are not modelled, so the proof of panic freedom
    rests on the absence of conflicting borrows.  Mechanical check: inside the block of a construct that holds a
    `borrow_mut()` (if let / match / while let on `*c.borrow_mut()`) there is no further borrow()/borrow_mut();
    inside a block that holds a `borrow()` there is no `borrow_mut()`.  (Shared borrows may nest.)  A finding is not
    a violation (the cells may differ): it makes the deductive verdict for C09 undecided."""
    import rsx
    repo = os.environ.get('VERIF_REPO', '/repo')
    bad = []
    for rel in ('src/generator/stack_ops.rs', 'src/generator/utils.rs', 'src/generator/validation.rs', 'src/generator/emission.rs',
                'src/generator/core.rs', 'src/generator/mutation.rs', 'src/stack.rs', 'src/state.rs', 'src/mutators/typeconfusion.rs'):
        try:
            src = open(os.path.join(repo, rel), encoding='utf-8').read()
        except OSError as e:
            bad.append('%s unreadable: %s' % (rel, e))
            continue
        m = re.search(r'(?m)^#\[cfg\(test\)\]', src)
        if m:
            src = src[:m.start()]
        ms = rsx.mask(src)
        for mm in re.finditer(r'\.\s*borrow(_mut)?\s*\(\s*\)', ms):
            k = mm.end()
            while k < len(ms) and ms[k] not in '{;}':
                k += 1
            if k >= len(ms) or ms[k] != '{':
                continue
            body = ms[k + 1:rsx.match_close(ms, k)]
            outer_mut = mm.group(1) is not None
            for im in re.finditer(r'\.\s*borrow(_mut)?\s*\(\s*\)', body):
                if outer_mut or im.group(1) is not None:
                    bad.append('%s:%d: %s inside a block that holds %s' % (rel, src.count('\n', 0, mm.start()) + 1,
                               'borrow_mut()' if im.group(1) else 'borrow()', 'borrow_mut()' if outer_mut else 'borrow()'))
                    break
    return bad


def parse_errors(stderr):
    """Split rustc-style diagnostics into records (msg, first span line, all span lines)."""
    recs = []
    cur = None
    for ln in stderr.split('\n'):
        m = re.match(r'^(error|warning|note)(\[E\d+\])?: (.*)$', ln)
        if m:
            if cur:
                recs.append(cur)
            cur = dict(level=m.group(1), code=m.group(2), msg=m.group(3), spans=[], text=[ln])
            continue
        if cur is None:
            continue
        cur['text'].append(ln)
        m = re.match(r'^\s*-->\s*(\S+?):(\d+):(\d+)', ln)
        if m:
            cur['spans'].append(int(m.group(2)))
        else:
            m = re.match(r'^\s*(\d+)\s*\|', ln)
            if m:
                cur['spans'].append(int(m.group(1)))
    if cur:
        recs.append(cur)
    return recs


class FrontEnd(Undecided):
    """The verifier (or rustc inside it) rejected the unit before/without deciding obligations."""
    def __init__(self, msg, stderr, ex):
        Undecided.__init__(self, msg)
        self.stderr = stderr
        self.ex = ex


def run_unit(name, template, vacuity=False, rlimit=200, extra_flags=(), use_cache=True, threads=8):
    """Partial degradation (DESIGN 5.4): a function whose body cannot be extracted (lost anchor) or that
    the verifier front end rejects is kept as an *assumed* contract for this run, the unit is rebuilt and
    every other function is still verified.  The functions so degraded are returned in `degraded`; the
    driver never reports such a run as proved (it runs the bounded stand-in and prints DEGRADED)."""
    force = set()
    last = None
    for _ in range(6):
        try:
            return _run_unit_once(name, template, vacuity, rlimit, extra_flags, use_cache, threads, force)
        except FrontEnd as e:
            last = e
            owners = set()
            by_range = [(f['unit_lines'][0], f['unit_lines'][1], f) for f in e.ex.functions if f.get('unit_lines')]
            for rec in parse_errors(e.stderr):
                if rec['level'] != 'error' or rec['msg'].startswith('aborting due to'):
                    continue
                hit = None
                for ln in rec['spans']:
                    for a, b, f in by_range:
                        if a <= ln <= b and not f['assumed']:
                            hit = f['verus_fn']
                            break
                    if hit:
                        break
                if hit is None:
                    raise e          # an error outside any extracted function: cannot localise
                owners.add(hit[:-5] if hit.endswith('__vac') else hit)
            new = owners - force
            if not new:
                raise e
            force |= new
    raise last


def _run_unit_once(name, template, vacuity, rlimit, extra_flags, use_cache, threads, force):
    """Returns a dict describing the run.  Raises Undecided for anything that is not a clean
    pass or a genuine failed obligation."""
    t0 = time.time()
    out_dir = os.path.join(BUILD, 'verus' + (('-' + os.environ['VERIF_SLOT']) if os.environ.get('VERIF_SLOT') else ''))
    os.makedirs(out_dir, exist_ok=True)
    os.makedirs(CACHE, exist_ok=True)
    unit_name = name + ('_vacuity' if vacuity else '')
    out_path = os.path.join(out_dir, unit_name + '.rs')
    try:
        ex = extract.build_unit(os.path.join(VERIF, template), out_path, vacuity=vacuity, force_assume=force)
    except LostAnchor as e:
        raise Undecided('lost anchor in unit %s: %s' % (name, e))
    except FileNotFoundError as e:
        raise Undecided('source file missing for unit %s: %s' % (name, e))
    text = ex.text
    flags = ['--output-json', '--time', '--multiple-errors', '1' if vacuity else '12',
             '--num-threads', str(threads)]
    if rlimit:
        flags += ['--rlimit', str(rlimit)]
    flags += list(extra_flags)
    ver = verus_version()
    key = hashlib.sha256((text + '\0' + ver + '\0' + ' '.join(flags)).encode()).hexdigest()
    cpath = os.path.join(CACHE, 'verus-' + key + '.json')
    cache_hit = False
    if use_cache and os.path.exists(cpath):
        raw = json.load(open(cpath))
        cache_hit = True
    else:
        cmd = ['verus', os.path.basename(out_path)] + flags
        p = subprocess.run(cmd, cwd=out_dir, capture_output=True, text=True)
        raw = dict(stdout=p.stdout, stderr=p.stderr, rc=p.returncode, cmd=' '.join(cmd),
                   wall_s=round(time.time() - t0, 2))
        json.dump(raw, open(cpath, 'w'))
    try:
        j = json.loads(raw['stdout'])
    except ValueError:
        raise FrontEnd('verus produced no JSON for unit %s: %s' % (name, raw['stderr'][-800:]), raw['stderr'], ex)
    vr = j.get('verification-results', {})
    if vr.get('encountered-vir-error') or (not vr and re.search(r'(?m)^error', raw['stderr'])):
        raise FrontEnd('verus front-end error in unit %s: %s' % (name, raw['stderr'][-1500:]), raw['stderr'], ex)
    fb = {}
    smt = j.get('times-ms', {}).get('smt', {})
    for m in smt.get('smt-run-module-times', []):
        for f in m.get('function-breakdown', []):
            fn = '::'.join(f['function'].split('::')[1:])
            e = fb.setdefault(fn, dict(success=True, time_ms=0))
            e['success'] = e['success'] and bool(f['success'])
            e['time_ms'] += f.get('time', 0)
    if not fb:
        raise FrontEnd('unit %s: verus reported no verified functions: %s' % (name, raw['stderr'][-1500:]), raw['stderr'], ex)
    # ---- attribute diagnostics to functions / clauses --------------------------------------
    lines = text.split('\n')
    by_range = [(f['unit_lines'][0], f['unit_lines'][1], f) for f in ex.functions if f.get('unit_lines')]

    def owner(line):
        for a, b, f in by_range:
            if a <= line <= b:
                return f
        return None

    failures = []
    # functions without a verdict in this run: the others are still decided (verification is modular:
    # callers were checked against these functions' contracts, not their bodies)
    degraded = [dict(function=f['verus_fn'], reason='body not verified this run: ' + f['lost'])
                for f in ex.functions if f.get('lost')]
    for rec in parse_errors(raw['stderr']):
        if rec['level'] != 'error':
            continue
        msg = rec['msg']
        if msg.startswith('aborting due to'):
            continue
        if not any(msg.startswith(k) or k in msg for k in FAIL_KINDS):
            raise FrontEnd('unit %s: verifier diagnostic that is not a failed obligation: %s\n%s'
                           % (name, msg, '\n'.join(rec['text'][:12])), raw['stderr'], ex)
        if any(k in msg for k in ('Resource limit', 'rlimit')):
            fo = None
            for ln in rec['spans']:
                fo = fo or owner(ln)
            if fo is None:
                raise Undecided('unit %s: solver resource limit: %s' % (name, msg))
            degraded.append(dict(function=fo['verus_fn'], reason='solver resource limit (rlimit %s)' % rlimit))
            continue
        spans = rec['spans']
        f = None
        tags = []
        clause = ''
        for ln in spans:
            if 1 <= ln <= len(lines):
                t = re.findall(r'@(C\d{2,3}\??|VACUITY)(?![\w])', lines[ln - 1])
                if t and not tags:
                    tags = t
                    clause = lines[ln - 1].strip()
            if f is None:
                f = owner(ln)
        if not clause and spans:
            clause = lines[spans[0] - 1].strip() if 1 <= spans[0] <= len(lines) else ''
        failures.append(dict(msg=msg, function=f['verus_fn'] if f else None,
                             source=f['source'] if f else None, real_function=f['function'] if f else None,
                             arm=f.get('arm') if f else None, source_lines=f['lines'] if f else None,
                             fn_props=f['props'] if f else [], tags=tags, clause=clause,
                             text='\n'.join(rec['text'][:25])))
    # rlimit/timeouts can also show up as a function with success=false and no diagnostic
    failed_fns = [k for k, v in fb.items() if not v['success']]
    diag_fns = set(x['function'] for x in failures) | set(d['function'] for d in degraded)
    for fn in failed_fns:
        if fn not in diag_fns and any(fn == f['verus_fn'] for f in ex.functions):
            degraded.append(dict(function=fn, reason='failed without a diagnostic (solver limit?)'))
    functions = []
    for f in ex.functions:
        st = fb.get(f['verus_fn'])
        functions.append(dict(f, verified=(bool(st and st['success']) and not f['assumed']),
                              checked=bool(st) and not f['assumed'], time_ms=st['time_ms'] if st else 0))
    lemma_fns = {k: v for k, v in fb.items() if not any(k == f['verus_fn'] for f in ex.functions)}
    return dict(unit=unit_name, template=template, path=out_path, sha=key, cache_hit=cache_hit,
                cmd=raw.get('cmd'), verus_version=ver, verified=vr.get('verified'), errors=vr.get('errors'),
                smt_ms=smt.get('total'), solver_wall_s=raw.get('wall_s'), wall_s=round(time.time() - t0, 2),
                functions=functions, lemmas=lemma_fns, failures=failures, degraded=degraded,
                rules=sorted(ex.rules_used), rule_docs={r: rules.DOC.get(r, '') for r in sorted(ex.rules_used)},
                trusted=scan_trusted(text), lint_borrow_mut=lint_borrow_mut(text))
