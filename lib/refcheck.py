"""Executable reference checks on pickle bytes, independent of /repo/src.

Used ONLY to attach a concrete failing input to an obligation that the verifier already reported
as failed (replay finder, DESIGN 2.4) and to confirm seeded changes / defects on the real code.
It never decides a property.

Oracles: CPython pickletools.genops (lexer), pickletools.dis (stack + memo discipline), and a
kind-tracking machine that is a direct transliteration of contracts/refmachine.rs.
"""
import io
import pickletools

ANY, MARK = 'Any', 'Mark'
DATA = {'Int', 'Float', 'Bool', 'None', 'Bytes', 'String', 'ByteArray', 'List', 'Tuple', 'Dict', 'Set',
        'FrozenSet', 'Mark'}

PUSH = {
    'BININT': 'Int', 'BININT1': 'Int', 'BININT2': 'Int', 'LONG': 'Int', 'LONG1': 'Int', 'LONG4': 'Int',
    'INT': ANY, 'STRING': ANY, 'BINSTRING': ANY, 'SHORT_BINSTRING': ANY,
    'BINBYTES': 'Bytes', 'SHORT_BINBYTES': 'Bytes', 'BINBYTES8': 'Bytes', 'BYTEARRAY8': 'ByteArray',
    'NEXT_BUFFER': ANY, 'READONLY_BUFFER': ANY, 'NONE': 'None', 'NEWTRUE': 'Bool', 'NEWFALSE': 'Bool',
    'UNICODE': 'String', 'SHORT_BINUNICODE': 'String', 'BINUNICODE': 'String', 'BINUNICODE8': 'String',
    'FLOAT': 'Float', 'BINFLOAT': 'Float', 'EMPTY_LIST': 'List', 'LIST': 'List',
    'EMPTY_TUPLE': 'Tuple', 'TUPLE': 'Tuple', 'TUPLE1': 'Tuple', 'TUPLE2': 'Tuple', 'TUPLE3': 'Tuple',
    'EMPTY_DICT': 'Dict', 'DICT': 'Dict', 'EMPTY_SET': 'Set', 'FROZENSET': 'FrozenSet', 'MARK': MARK,
    'EXT1': ANY, 'EXT2': ANY, 'EXT4': ANY, 'PERSID': ANY, 'BINPERSID': ANY,
    'GLOBAL': 'Callable', 'STACK_GLOBAL': 'Callable',
    'REDUCE': 'Instance', 'INST': 'Instance', 'OBJ': 'Instance', 'NEWOBJ': 'Instance', 'NEWOBJ_EX': 'Instance',
}
TABLE = {o.name: o for o in pickletools.opcodes}


def decode(data):
    """C04: complete decode under the CPython table.  Returns (ops, errors); ops = [(name, arg, pos)]."""
    ops, errs = [], []
    try:
        for op, arg, pos in pickletools.genops(data):
            ops.append((op.name, arg, pos))
            if op.name in ('EXT1', 'EXT2', 'EXT4') and arg < 1:
                errs.append('C04 %s code %r < 1 at %d' % (op.name, arg, pos))
            if op.name in ('GET', 'PUT', 'BINGET', 'BINPUT', 'LONG_BINGET', 'LONG_BINPUT') and arg < 0:
                errs.append('C04 negative memo index at %d' % pos)
    except Exception as e:  # noqa: BLE001 - any lexer failure is the finding
        errs.append('C04 decode error after %d opcodes: %s: %s' % (len(ops), type(e).__name__, e))
        return ops, errs
    stops = [i for i, o in enumerate(ops) if o[0] == 'STOP']
    if len(stops) != 1 or stops[0] != len(ops) - 1:
        errs.append('C04 STOP positions %r among %d opcodes' % (stops, len(ops)))
    # genops stops at the first STOP: anything after it is trailing garbage
    if ops and ops[-1][0] == 'STOP' and ops[-1][2] != len(data) - 1:
        errs.append('C04 %d trailing bytes after STOP' % (len(data) - 1 - ops[-1][2]))
    return ops, errs


def dis_check(data):
    """C01/C02 via pickletools.dis symbolic execution."""
    try:
        pickletools.dis(data, out=io.StringIO())
        return []
    except Exception as e:  # noqa: BLE001
        return ['dis: %s: %s' % (type(e).__name__, e)]


def top_mark(st):
    for i in range(len(st) - 1, -1, -1):
        if st[i] == MARK:
            return i
    return -1


def acc(want, k):
    return k == want or k == ANY


def machine(ops, stop_at_first=True):
    """Kind-tracking reference machine (transliteration of refmachine.rs).  Returns list of
    violation strings tagged C01/C02/C03, and the per-step states."""
    st, memo, errs, states = [], {}, [], []
    for name, arg, pos in ops:
        o = TABLE[name]
        before = [x.name for x in o.stack_before]
        uses_mark = 'mark' in before
        pops = before.index('mark') if uses_mark else len(before)
        tm = top_mark(st)
        e0 = len(errs)
        # C01
        if name == 'STOP':
            if not (len(st) == 1 and st[0] != MARK):
                errs.append('C01 STOP with stack %r at %d' % (st, pos))
        elif uses_mark:
            if tm < pops:
                errs.append('C01 %s: no MARK (or nothing below it) at %d, stack %r' % (name, pos, st))
        elif len(st) < pops:
            errs.append('C01 %s needs %d operands, has %d at %d' % (name, pops, len(st), pos))
        # C02
        if name in ('GET', 'BINGET', 'LONG_BINGET'):
            if arg not in memo:
                errs.append('C02 %s %r undefined at %d' % (name, arg, pos))
        if name in ('PUT', 'BINPUT', 'LONG_BINPUT', 'MEMOIZE'):
            idx = len(memo) if name == 'MEMOIZE' else arg
            if idx in memo:
                errs.append('C02 %s redefines memo %r at %d' % (name, idx, pos))
            if not st or st[-1] == MARK:
                errs.append('C02 %s with %s on top at %d' % (name, 'MARK' if st else 'nothing', pos))
        # C03
        def at(d):
            return st[len(st) - 1 - d] if len(st) > d else None
        above = len(st) - 1 - tm
        bad = None
        if name == 'APPEND' and not (len(st) >= 2 and acc('List', at(1))):
            bad = 'target %r' % at(1)
        elif name == 'APPENDS' and not (tm >= 1 and acc('List', st[tm - 1])):
            bad = 'target below MARK'
        elif name == 'SETITEM' and not (len(st) >= 3 and acc('Dict', at(2))):
            bad = 'target %r' % at(2)
        elif name == 'SETITEMS' and not (tm >= 1 and acc('Dict', st[tm - 1]) and above % 2 == 0):
            bad = 'target/parity'
        elif name == 'ADDITEMS' and not (tm >= 1 and acc('Set', st[tm - 1])):
            bad = 'target below MARK'
        elif name == 'DICT' and not (tm >= 0 and above % 2 == 0):
            bad = 'odd operand count'
        elif name == 'STACK_GLOBAL' and not (len(st) >= 2 and acc('String', at(0)) and acc('String', at(1))):
            bad = 'operands %r %r' % (at(1), at(0))
        elif name in ('REDUCE', 'NEWOBJ') and not (len(st) >= 2 and acc('Tuple', at(0)) and at(1) not in DATA):
            bad = 'callee %r args %r' % (at(1), at(0))
        elif name == 'NEWOBJ_EX' and not (len(st) >= 3 and acc('Dict', at(0)) and acc('Tuple', at(1)) and at(2) not in DATA):
            bad = 'operands'
        elif name == 'BUILD' and not (len(st) >= 2 and (acc('Tuple', at(0)) or acc('Dict', at(0))) and acc('Instance', at(1))):
            bad = 'object %r state %r' % (at(1), at(0))
        elif name == 'OBJ' and not (tm >= 0 and tm + 1 < len(st) and st[tm + 1] not in DATA):
            bad = 'callee above MARK'
        elif name == 'DUP' and not (st and st[-1] != MARK):
            bad = 'DUP of MARK/nothing'
        elif name == 'READONLY_BUFFER' and not (st and st[-1] != MARK):
            bad = 'operand is MARK/nothing'
        if bad:
            errs.append('C03 %s: %s at %d' % (name, bad, pos))
        if len(errs) > e0 and stop_at_first:
            return errs, states
        # effect
        if name in ('PUT', 'BINPUT', 'LONG_BINPUT'):
            memo[arg] = st[-1]
        elif name == 'MEMOIZE':
            memo[len(memo)] = st[-1]
        elif name in ('PROTO', 'FRAME'):
            pass
        elif name in ('STOP', 'POP', 'APPEND', 'BUILD'):
            st = st[:-1]
        elif name == 'SETITEM':
            st = st[:-2]
        elif name == 'DUP':
            st = st + [st[-1]]
        elif name in ('POP_MARK', 'APPENDS', 'SETITEMS', 'ADDITEMS'):
            st = st[:tm]
        elif name in ('LIST', 'TUPLE', 'DICT', 'FROZENSET', 'INST', 'OBJ'):
            st = st[:tm] + [PUSH[name]]
        elif name == 'READONLY_BUFFER':
            st = st[:-1] + [ANY]
        elif name in ('GET', 'BINGET', 'LONG_BINGET'):
            st = st + [memo.get(arg, ANY)]
        else:
            st = st[:len(st) - pops] + [PUSH[name]]
        states.append((name, list(st), sorted(memo)))
    return errs, states


def check_all(data, protocol, unsafe=False, ext=False, buffer=False, min_ops=None, max_ops=None):
    """All byte-level checks; returns list of 'Cxx ...' strings."""
    ops, errs = decode(data)
    names = [o[0] for o in ops]
    if not unsafe:
        if not any(e.startswith('C04') for e in errs):
            me, _ = machine(ops)
            errs += me
            for d in dis_check(data):
                # C01 is stated as "accepted by the reference disassembler's symbolic check": a rejection of any kind counts
                # for it; memo complaints are C02's subject as well
                if 'memo' in d:
                    errs.append('C02 ' + d)
                errs.append('C01 ' + d)
        # C05 (also on the prefix that still decodes when the stream derails later)
        for n, a, pos in ops:
            if TABLE[n].proto > protocol:
                errs.append('C05 %s (protocol %d) in protocol-%d pickle at %d' % (n, TABLE[n].proto, protocol, pos))
        # ... and a byte in opcode position that is no opcode of ANY protocol is outside the vocabulary of this one too
        for e in list(errs):
            if e.startswith('C04 decode error') and 'unknown' in e and 'opcode' in e:
                errs.append('C05 a byte in opcode position is not an opcode of protocol <= %d: %s' % (protocol, e[4:]))
        protos = [i for i, n in enumerate(names) if n == 'PROTO']
        if protocol >= 2:
            if protos != [0] or ops[0][1] != protocol:
                errs.append('C05 PROTO positions %r arg %r' % (protos, ops[0][1] if ops else None))
        elif protos:
            errs.append('C05 PROTO in protocol-%d pickle' % protocol)
        if protocol == 0 and any(b >= 0x80 for b in data):
            errs.append('C05 non-ASCII byte in protocol-0 pickle')
    # C06
    frames = [i for i, n in enumerate(names) if n == 'FRAME']
    if protocol < 4 and frames:
        errs.append('C06 FRAME in protocol-%d pickle' % protocol)
    if len(frames) > 1:
        errs.append('C06 %d FRAME opcodes' % len(frames))
    if len(frames) == 1:
        i = frames[0]
        pos = ops[i][2]
        if i != 1 or names[0] != 'PROTO':
            errs.append('C06 FRAME is opcode #%d' % i)
        if ops[i][1] != len(data) - (pos + 9):
            errs.append('C06 FRAME length %d but %d bytes follow' % (ops[i][1], len(data) - (pos + 9)))
    # C10
    if not ext and any(n in ('EXT1', 'EXT2', 'EXT4') for n in names):
        errs.append('C10 EXT opcode without allow_ext')
    if not buffer and any(n in ('NEXT_BUFFER', 'READONLY_BUFFER') for n in names):
        errs.append('C10 buffer opcode without allow_buffer')
    # C11 (outer bounds only; T itself is not observable from bytes)
    if min_ops is not None and max_ops is not None and not any(e.startswith('C04') for e in errs):
        n = len(ops)
        if n < min_ops + 1 or n > 3 * max(min_ops, max_ops) + 4:
            errs.append('C11 %d opcodes outside [%d, %d]' % (n, min_ops + 1, 3 * max(min_ops, max_ops) + 4))
    return errs
