#!/usr/bin/env python3
"""Write MANIFEST.json from lib/props.py (single source of truth for what is claimed)."""
import json, os, sys
sys.path.insert(0, os.path.dirname(os.path.abspath(__file__)))
import props as P

HERE = os.path.dirname(os.path.dirname(os.path.abspath(__file__)))
ALL = ['C%02d' % i for i in range(1, 19)]

checks = []
for pid in ALL:
    if pid not in P.PROPS:
        continue
    c = P.PROPS[pid]
    checks.append(dict(
        property_id=pid,
        quick_cmd='./check %s --tier quick' % pid,
        thorough_cmd='./check %s --tier thorough' % pid,
        evidence_file='/verif/evidence/%s.json' % pid,
        replay_cmd_template='./check --replay {path}',
        engine='contracts',
        level_claimed=dict(category=c['level'], text=c['claim'], design_ref=c.get('design_ref', 'DESIGN.md section 5')),
        level_note=c['note'],
        technique=c['technique'],
    ))
na = [dict(property_id=pid, reason=P.NOT_APPLICABLE[pid]) for pid in ALL if pid not in P.PROPS]
m = dict(
    version=1,
    setup_cmd='./setup.sh',
    hooks=dict(
        guard='none',
        enable='no hooks in /repo: Verus units are extracted from /repo/src into /verif/build/verus on every run; '
               'Kani harnesses are woven into per-run copies under /verif/build/kani (cfg(kani) exists only there)',
        baseline_off_cmd='cd /repo && cargo test --workspace --no-fail-fast --offline',
        source_commits=[],
        add_only=True,
    ),
    engines=[dict(name='contracts', path='/verif/check', serves_properties=[c['property_id'] for c in checks],
                  kind_free_text='contract-based deductive verification: Verus on function bodies extracted from /repo/src '
                                 'each run; Kani (CBMC) function-level harnesses on the real emitters/mutators/entropy adapters')],
    checks=checks,
    not_applicable=na,
    notes='Genuine defects found by the contracts were repaired in /repo by separate "fix:" commits; see known_findings.json '
          'and DESIGN.md section 6. Exit code 2 + "UNDECIDED: ..." means no verdict (lost anchor, unsupported construct, solver limit).',
)
json.dump(m, open(os.path.join(HERE, 'MANIFEST.json'), 'w'), indent=1)
print('MANIFEST.json: %d checks, %d not_applicable' % (len(checks), len(na)))
