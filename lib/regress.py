#!/usr/bin/env python3
"""Re-run every stored seeded change against the checks of the properties it breaks, and every stored
behaviour-preserving refactoring against all checks.  Prints a table; exit 1 if a seeded change is not
reported (exit 0 without VIOLATION) or a refactoring raises an alarm.
usage: regress.py [substring ...]   (only directories whose name contains one of the substrings)"""
import json, os, subprocess, sys
HERE = os.path.dirname(os.path.abspath(__file__))
SEEDED = os.path.join(os.path.dirname(HERE), 'seeded')
ALL = ['C01', 'C02', 'C03', 'C04', 'C05', 'C06', 'C07', 'C08', 'C09', 'C10', 'C11', 'C12', 'C15', 'C16', 'C17', 'C18']
sel = sys.argv[1:]
bad = 0
for d in sorted(os.listdir(SEEDED)):
    p = os.path.join(SEEDED, d)
    if not os.path.isdir(p) or (sel and not any(x in d for x in sel)):
        continue
    if subprocess.run(['git', '-C', os.environ.get('SEED_REPO', '/repo'), 'apply', '--check', os.path.join(p, 'patch.diff')], capture_output=True).returncode != 0:
        print('%-22s patch does not apply to the current tree: skipped' % d, flush=True)
        continue
    refactor = d.startswith(('refactor-', 'preserve-'))
    props = ALL if refactor else json.load(open(os.path.join(p, 'meta.json'))).get('breaks', [])
    props = [x for x in props if x in ALL]
    subprocess.run([sys.executable, os.path.join(HERE, 'seedtest.py'), p] + props, capture_output=True, text=True)
    res = json.load(open(os.path.join(p, 'last_run.json')))
    for c in props:
        r = res.get(c, {})
        line = (r.get('lines') or [''])[0][:150]
        if refactor:
            ok = r.get('rc') == 0
        else:
            ok = r.get('rc') == 1 and line.startswith('VIOLATION')
        bad += (not ok)
        print('%-22s %s rc=%s %s %s' % (d, c, r.get('rc'), 'ok ' if ok else 'BAD', line), flush=True)
print('regress: %d unexpected results' % bad)
sys.exit(1 if bad else 0)
