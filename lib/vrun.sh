#!/bin/bash
# dev helper: expand + verify one template, print failing functions and compact errors
cd /verif && python3 lib/vtry.py contracts/$1.rs build/verus/$1.rs || exit 2
cd build/verus && verus $1.rs --output-json --time --multiple-errors 5 ${VFLAGS} > /tmp/vt/$1.json 2> /tmp/vt/$1.err
python3 - $1 <<'PY'
import json,sys,re
u=sys.argv[1]
try:
    d=json.load(open('/tmp/vt/%s.json'%u))
except Exception as e:
    print(open('/tmp/vt/%s.err'%u).read()[:6000]); sys.exit(1)
print(d['verification-results'])
fb=[f for m in d['times-ms']['smt']['smt-run-module-times'] for f in m['function-breakdown']]
print('smt total ms', d['times-ms']['smt']['total'], ' slowest:', sorted([(f['time'],f['function']) for f in fb])[-3:])
print('FAILED:', [f['function'].split('::')[-1] for f in fb if not f['success']])
PY
grep -v "^warning\|deprecated\|^ *= note\|^$" /tmp/vt/$1.err | grep -A${2:-4} "^error" | head -${3:-60}
