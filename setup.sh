#!/bin/bash
# MANIFEST.setup_cmd: build everything the checks need from files on disk only (offline).
set -e
cd "$(dirname "$0")"
export CARGO_NET_OFFLINE=true
mkdir -p build evidence replays
python3 oracle/gen_tables.py
# replay tool (links the real library from /repo; rebuilt by the checks whenever they need it)
cp /repo/Cargo.lock replay/Cargo.lock
( cd replay && CARGO_TARGET_DIR=/verif/build/replay-target cargo build --release --offline --quiet ) || echo "setup: replay tool build failed (checks rebuild it on demand)"
verus --version | head -3
echo setup done
